// gomut: a small source-level mutation tool used to survey the detection power of the checks
// (tools/automut.sh).  It is NOT part of any registered check.
//   gomut -list <file.go>            prints one line per mutation site: index<TAB>line<TAB>description
//   gomut -apply <k> <file.go>       rewrites the file in place with mutation k applied
package main

import (
	"bytes"
	"fmt"
	"go/ast"
	"go/format"
	"go/parser"
	"go/token"
	"os"
	"strconv"
)

type site struct {
	line  int
	desc  string
	apply func()
}

func main() {
	if len(os.Args) < 3 {
		fmt.Fprintln(os.Stderr, "usage: gomut -list file | -apply k file")
		os.Exit(2)
	}
	mode := os.Args[1]
	file := os.Args[len(os.Args)-1]
	fset := token.NewFileSet()
	f, err := parser.ParseFile(fset, file, nil, parser.ParseComments)
	if err != nil {
		fmt.Fprintln(os.Stderr, err)
		os.Exit(2)
	}
	var sites []site
	add := func(pos token.Pos, desc string, fn func()) {
		sites = append(sites, site{fset.Position(pos).Line, desc, fn})
	}
	swap := map[token.Token][]token.Token{
		token.LSS: {token.LEQ}, token.LEQ: {token.LSS}, token.GTR: {token.GEQ}, token.GEQ: {token.GTR},
		token.EQL: {token.NEQ}, token.NEQ: {token.EQL}, token.LAND: {token.LOR}, token.LOR: {token.LAND},
		token.ADD: {token.SUB}, token.SUB: {token.ADD},
	}
	var walkBlock func(list *[]ast.Stmt)
	walkBlock = func(list *[]ast.Stmt) {
		for i := range *list {
			i := i
			st := (*list)[i]
			switch s := st.(type) {
			case *ast.AssignStmt:
				if s.Tok != token.DEFINE {
					add(s.Pos(), "delete assignment", func() { (*list)[i] = &ast.EmptyStmt{Semicolon: s.Pos()} })
				}
			case *ast.ExprStmt:
				if _, ok := s.X.(*ast.CallExpr); ok {
					if c, ok := s.X.(*ast.CallExpr); ok {
						if sel, ok := c.Fun.(*ast.SelectorExpr); ok {
							if id, ok := sel.X.(*ast.Ident); ok && id.Name == "verifhook" {
								continue
							}
						}
					}
					add(s.Pos(), "delete call statement", func() { (*list)[i] = &ast.EmptyStmt{Semicolon: s.Pos()} })
				}
			case *ast.IncDecStmt:
				add(s.Pos(), "delete inc/dec", func() { (*list)[i] = &ast.EmptyStmt{Semicolon: s.Pos()} })
			case *ast.DeferStmt:
				add(s.Pos(), "delete defer", func() { (*list)[i] = &ast.EmptyStmt{Semicolon: s.Pos()} })
			}
		}
	}
	ast.Inspect(f, func(n ast.Node) bool {
		switch x := n.(type) {
		case *ast.BinaryExpr:
			if alts, ok := swap[x.Op]; ok {
				for _, a := range alts {
					a, old := a, x.Op
					add(x.OpPos, fmt.Sprintf("%s -> %s", old, a), func() { x.Op = a })
				}
			}
		case *ast.BasicLit:
			if x.Kind == token.INT {
				if v, err := strconv.ParseInt(x.Value, 0, 64); err == nil && v < 1<<40 {
					add(x.Pos(), fmt.Sprintf("%s -> %d", x.Value, v+1), func() { x.Value = strconv.FormatInt(v+1, 10) })
					if v > 0 {
						add(x.Pos(), fmt.Sprintf("%s -> %d", x.Value, v-1), func() { x.Value = strconv.FormatInt(v-1, 10) })
					}
				}
			}
		case *ast.BlockStmt:
			walkBlock(&x.List)
		case *ast.CaseClause:
			walkBlock(&x.Body)
		case *ast.IfStmt:
			add(x.Pos(), "negate if condition", func() { x.Cond = &ast.UnaryExpr{Op: token.NOT, X: &ast.ParenExpr{X: x.Cond}} })
		}
		return true
	})
	switch mode {
	case "-list":
		for i, s := range sites {
			fmt.Printf("%d\t%d\t%s\n", i, s.line, s.desc)
		}
	case "-apply":
		k, _ := strconv.Atoi(os.Args[2])
		if k < 0 || k >= len(sites) {
			fmt.Fprintln(os.Stderr, "no such site")
			os.Exit(2)
		}
		sites[k].apply()
		var buf bytes.Buffer
		if err := format.Node(&buf, fset, f); err != nil {
			fmt.Fprintln(os.Stderr, err)
			os.Exit(2)
		}
		if err := os.WriteFile(file, buf.Bytes(), 0o644); err != nil {
			fmt.Fprintln(os.Stderr, err)
			os.Exit(2)
		}
		fmt.Printf("line %d: %s\n", sites[k].line, sites[k].desc)
	}
}
