#!/usr/bin/env python3
"""Survey of the checks' detection power with mechanical source mutants (NOT a registered check).

usage: tools/automut.py <outdir> <N> <seed> [lanes]

Samples N mutation sites (tools/gomut: comparison / arithmetic / logical operator swaps, integer
literal +-1, deleted assignments / calls / defers, negated conditions) over the library's non-test
sources, and for each one, in a scratch worktree of /repo HEAD (never /repo itself):
  1. applies the mutation; a mutant that does not build is dropped;
  2. runs the quick tier of the checks mapped to the mutated file (VERIF_REPO=<worktree>, a private
     copy of /verif), stopping at the first check that reports a violation;
  3. for a mutant no mapped check reports, runs pierrec/lz4's own suite (is it killed there?).
Results: <outdir>/results.jsonl, one patch per mutant in <outdir>/patches/.  Survivors that the
suite does not kill either are the interesting ones: equivalent mutants or holes.
"""
import json, os, random, shutil, subprocess, sys, threading

ENV = dict(os.environ, GOFLAGS="-mod=mod", GOPROXY="off", GOSUMDB="off", GOTOOLCHAIN="local")
ALL = ["C%02d" % i for i in range(1, 21)]
MAP = {
    "writer.go": "C17 C02 C15 C14 C09 C08 C13",
    "reader.go": "C17 C06 C05 C02 C15 C16 C19 C07 C08",
    "compressing_reader.go": "C18 C09",
    "options.go": "C17 C02 C19 C18 C09 C14",
    "state.go": "C17 C02 C15 C18",
    "lz4.go": "C01 C11 C03 C14",
    "internal/lz4stream/block.go": "C02 C06 C05 C09 C15 C17 C16 C07 C08 C14",
    "internal/lz4stream/frame.go": "C19 C02 C06 C05 C09 C17 C07 C13 C15 C18",
    "internal/lz4block/block.go": "C01 C10 C11 C14",
    "internal/lz4block/blocks.go": "C09 C02 C07 C08 C14 C17",
    "internal/lz4block/decode_other.go": "C04 C03 C12 C16",
    "internal/xxh32/xxh32zero.go": "C13 C02",
}
VERIF = os.environ.get("AUTOMUT_VERIF", "/verif")
GOMUT = os.path.join(VERIF, ".bin/gomut")


def sh(cmd, cwd=None, timeout=3600, env=ENV):
    try:
        p = subprocess.run(cmd, cwd=cwd, env=env, shell=isinstance(cmd, str), timeout=timeout,
                           stdout=subprocess.PIPE, stderr=subprocess.STDOUT, text=True, errors="replace")
        return p.returncode, p.stdout
    except subprocess.TimeoutExpired as e:
        return 124, (e.stdout or "") if isinstance(e.stdout, str) else ""


def suite_failset(wt):
    rc, out = sh("go test -json -vet=off -count=1 -timeout 20m . ./internal/... 2>/dev/null", cwd=wt, timeout=1500)
    f = set()
    for l in out.splitlines():
        try:
            e = json.loads(l)
        except Exception:
            continue
        if e.get("Action") == "fail":
            f.add(e.get("Package", "") + "::" + (e.get("Test") or "<pkg>"))
    return f


def run_check(vdir, wt, prop):
    env = dict(ENV, VERIF_REPO=wt)
    rc, out = sh(["./run.sh", prop, "quick"], cwd=vdir, timeout=2400, env=env)
    sig = [l[:200] for l in out.splitlines() if l.startswith("VIOLATION") or "violation " in l][:2]
    return rc, sig


def work(lane, jobs, outdir, base_fail, lock):
    root = "/tmp/am/lane%d" % lane
    while True:
        with lock:
            if not jobs:
                return
            k, (f, idx, line, desc) = jobs.pop(0)
        shutil.rmtree(root, ignore_errors=True)
        os.makedirs(root)
        wt = root + "/repo"
        sh(["git", "-C", "/repo", "worktree", "add", "-q", "--detach", wt, "HEAD"])
        res = {"k": k, "file": f, "line": line, "mutation": desc}
        try:
            sh([GOMUT, "-apply", str(idx), os.path.join(wt, f)])
            rc, diff = sh(["git", "diff"], cwd=wt)
            open(os.path.join(outdir, "patches", "m%03d.diff" % k), "w").write(diff)
            rc, out = sh("go build ./... && go build -tags verif ./... && go build -tags verif,noasm ./...", cwd=wt)
            if rc != 0:
                res["outcome"] = "does-not-build"
            else:
                vdir = root + "/verif"
                sh(["rsync", "-a", "--exclude", ".git", "--exclude", ".work", "--exclude", "evidence",
                    "--exclude", "replays", "--exclude", "seeded", VERIF + "/", vdir + "/"])
                os.makedirs(vdir + "/evidence", exist_ok=True)
                tried = []
                for p in MAP[f].split():
                    rc, sig = run_check(vdir, wt, p)
                    tried.append([p, rc])
                    if rc == 1 and sig:
                        res.update(outcome="detected", by=p, signature=sig)
                        break
                    if rc not in (0, 1):
                        res.update(outcome="check-broken", by=p)
                        break
                else:
                    fs = suite_failset(wt)
                    res["suite_kills"] = sorted(fs - base_fail)[:5]
                    res["outcome"] = "survived"
                res["tried"] = tried
        finally:
            sh(["git", "-C", "/repo", "worktree", "remove", "--force", wt])
            shutil.rmtree(root, ignore_errors=True)
        with lock:
            open(os.path.join(outdir, "results.jsonl"), "a").write(json.dumps(res) + "\n")
            print(json.dumps(res)[:300], flush=True)


def main():
    outdir, n, seed = sys.argv[1], int(sys.argv[2]), int(sys.argv[3])
    lanes = int(sys.argv[4]) if len(sys.argv) > 4 else 2
    os.makedirs(os.path.join(outdir, "patches"), exist_ok=True)
    sites = []
    for f in MAP:
        rc, out = sh([GOMUT, "-list", "/repo/" + f])
        for l in out.splitlines():
            i, line, desc = l.split("\t")
            sites.append((f, int(i), int(line), desc))
    rnd = random.Random(seed)
    rnd.shuffle(sites)
    skip = int(sys.argv[5]) if len(sys.argv) > 5 else 0
    jobs = list(enumerate(sites[:n]))[skip:]
    wt = "/tmp/am/base"
    shutil.rmtree(wt, ignore_errors=True)
    os.makedirs("/tmp/am", exist_ok=True)
    sh(["git", "-C", "/repo", "worktree", "add", "-q", "--detach", wt, "HEAD"])
    base_fail = suite_failset(wt)
    sh(["git", "-C", "/repo", "worktree", "remove", "--force", wt])
    print("sites:", len(sites), "sampled:", len(jobs), "baseline failing tests:", len(base_fail), flush=True)
    lock = threading.Lock()
    ts = [threading.Thread(target=work, args=(i, jobs, outdir, base_fail, lock)) for i in range(lanes)]
    for t in ts:
        t.start()
    for t in ts:
        t.join()
    print("ALLDONE")


if __name__ == "__main__":
    main()
