#!/bin/bash
# usage: tools/confirm_mutant.sh <seeded-dir>   (dir holds patch.diff + demo_test.go [+ demo.tags])
# Confirms in a scratch worktree of /repo HEAD: patch applies, builds, suite baseline unchanged,
# demo passes without the patch and fails with it.  Prints a JSON summary line.
set -u
export GOFLAGS=-mod=mod GOPROXY=off GOSUMDB=off GOTOOLCHAIN=local
d=$(readlink -f "$1"); name=$(basename "$d")
wt=/tmp/mutconfirm-$name
git -C /repo worktree remove --force "$wt" >/dev/null 2>&1; rm -rf "$wt"
git -C /repo worktree add -q --detach "$wt" HEAD || exit 2
cd "$wt" || exit 2
tags=""; [ -f "$d/demo.tags" ] && tags="-tags $(cat "$d/demo.tags")"
pk=$(grep -m1 '^package ' "$d/demo_test.go" 2>/dev/null | awk '{print $2}')
case "$pk" in xxh32) demodir=internal/xxh32;; lz4block) demodir=internal/lz4block;; lz4stream) demodir=internal/lz4stream;; *) demodir=.;; esac
runpat="^($(grep -o '^func Test[A-Za-z0-9_]*' "$d/demo_test.go" 2>/dev/null | sed 's/func //' | paste -sd'|'))\$"
pkgs=". ./internal/..."
if [ -f "$d/demo.sh" ]; then
  # self-contained shell demonstration taking the worktree in W
  run_demo() { W="$wt" bash "$d/demo.sh" >"$1" 2>&1; }
elif [ -f "$d/run.sh" ]; then
  # script-style demonstration (expects to live in <worktree>/mutant/<k>/)
  run_demo() { mkdir -p mutant/k9; cp -r "$d"/run.sh "$d"/demo mutant/k9/ 2>/dev/null; sh mutant/k9/run.sh >"$1" 2>&1; rc=$?; rm -rf mutant; return $rc; }
else
run_demo() { cp "$d/demo_test.go" "$demodir/zz_seeded_demo_test.go"; timeout 900 go test $tags -vet=off -count=1 -run "$runpat" "./$demodir" >"$1" 2>&1; rc=$?; rm -f "$demodir/zz_seeded_demo_test.go"; return $rc; }
fi
suite() { timeout 1500 go test -json -vet=off -count=1 $pkgs 2>/dev/null | python3 -c '
import sys,json
f=set()
for l in sys.stdin:
    try:e=json.loads(l)
    except: continue
    if e.get("Action")=="fail" and e.get("Test"): f.add(e["Package"]+"::"+e["Test"])
print("\n".join(sorted(f)))' ; }
run_demo /tmp/$name.demo.without; dw=$?
suite > /tmp/$name.suite.without
if ! git apply "$d/patch.diff" 2>/tmp/$name.apply.err; then
  if ! git apply -3 "$d/patch.diff" 2>>/tmp/$name.apply.err; then echo "{\"name\":\"$name\",\"applies\":false}"; cd /; git -C /repo worktree remove --force "$wt"; exit 1; fi
fi
git diff > /tmp/$name.rebased.diff
go build ./... >/tmp/$name.build 2>&1; b=$?
run_demo /tmp/$name.demo.with; dm=$?
suite > /tmp/$name.suite.with
same=false; cmp -s /tmp/$name.suite.without /tmp/$name.suite.with && same=true
echo "{\"name\":\"$name\",\"applies\":true,\"builds\":$([ $b = 0 ] && echo true || echo false),\"demo_without_rc\":$dw,\"demo_with_rc\":$dm,\"suite_failset_unchanged\":$same}"
cd /; git -C /repo worktree remove --force "$wt"; rm -rf "$wt"
