#!/bin/bash
# usage: tools/mutest.sh <seeded-dir> <prop> [<prop>...]
# Tries a seeded change WITHOUT touching /repo or /verif: a scratch worktree of /repo HEAD gets
# the patch, a copy of the framework's working tree is run against it via VERIF_REPO.
# (The registered checks themselves always run against /repo; to use them on a seeded change the
#  documented way is: git -C /repo apply <patch>; ./run.sh <id>; git -C /repo checkout -- . )
set -u
d=$(readlink -f "$1"); shift
name=$(basename "$d")
root=/tmp/mt/$name.$$
mkdir -p "$root"
git -C /repo worktree add -q --detach "$root/repo" HEAD || exit 2
cleanup() { git -C /repo worktree remove --force "$root/repo" >/dev/null 2>&1; rm -rf "$root"; }
trap cleanup EXIT
( cd "$root/repo" && { git apply "$d/patch.diff" 2>/dev/null || git apply -3 "$d/patch.diff" >/dev/null 2>&1; } ) || { echo "== $name: patch does not apply to /repo HEAD"; exit 2; }
if grep -q '^<<<<<<<' -r "$root/repo" --include=*.go --include=*.s 2>/dev/null; then echo "== $name: patch conflicts with /repo HEAD"; exit 2; fi
rsync -a --exclude .git --exclude .bin --exclude .work --exclude evidence --exclude replays "${MUTEST_VERIF_SRC:-/verif}/" "$root/verif/"
mkdir -p "$root/verif/evidence"
for p in "$@"; do
  out=$(cd "$root/verif" && VERIF_REPO="$root/repo" ./run.sh $p ${TIER:-quick} 2>&1); rc=$?
  echo "== $name vs $p: exit=$rc"
  echo "$out" | grep -E "VIOLATION|KNOWN-FINDING|BROKEN|violation " | cut -c1-260 | head -${LINES_MAX:-4}
done
