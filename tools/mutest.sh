#!/bin/bash
# usage: tools/mutest.sh <seeded-dir> <prop> [<prop>...]
# Applies the seeded change to /repo, runs the given quick checks, and always reverts /repo.
set -u
d=$(readlink -f "$1"); shift
cd /repo || exit 2
if [ -n "$(git status --porcelain --untracked-files=no)" ]; then echo "/repo has local modifications; refusing"; exit 2; fi
git apply "$d/patch.diff" || git apply -3 "$d/patch.diff" || { echo "patch does not apply"; git checkout -- .; exit 2; }
trap 'git -C /repo checkout -- . ' EXIT
cd /verif
for p in "$@"; do
  out=$(VERIF_KEEP_EVIDENCE=1 ./run.sh $p ${TIER:-quick} 2>&1); rc=$?
  echo "== $(basename $d) vs $p: exit=$rc"
  echo "$out" | grep -E "VIOLATION|KNOWN-FINDING|BROKEN|violation " | head -${LINES_MAX:-6}
done
