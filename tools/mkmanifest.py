#!/usr/bin/env python3
"""Regenerates /verif/MANIFEST.json from the table below (and validates it)."""
import json, subprocess, sys

TRUST = ("Trusted base: the independent reference implementations in /verif/internal/ref (self-checked on every run against "
         "published XXH32 vectors and the C-produced golden .lz4 files), the Go toolchain/runtime (race detector, checkptr, asan), "
         "the kernel's page protection. amd64 assembly and portable Go only; no arm hardware.")

CHECKS = {
 "C13": dict(cat="exploration", tech="differential runtime monitoring against an independent XXH32 (exported under the verif tag): exhaustive carry-buffer states, seeded random partitions, 2^32 boundary via state copies",
   text="Every carry-buffer state (0..15 buffered bytes x next-write length class x following write 0..33, fresh and after a stripe) is driven through the real streaming object with Sum32/Sum probes after each write, all one-shot lengths 0..1024 at 4 alignments, seeded random partitions up to 8 MiB, and every total length 2^32-16..2^32+16 (thorough: one-shot on real 4 GiB buffers and the Writer's content-checksum trailer for 2^32+5 bytes). Held-on-what-was-observed, not a proof; the state space of the 16-byte carry buffer is covered completely, content is sampled.",
   ref="6/C13"),
 "C19": dict(cat="exploration", tech="complete run-time enumeration of the 2^24 (descriptor x checksum byte) header space per content-size value through ValidFrameHeader and a fresh Reader, expected outcome from the independent XXH32",
   text="All 65536 descriptors x 256 checksum bytes are executed against the real ValidFrameHeader and Reader (Read, Size) with the content-size field present exactly when the descriptor says so; accept/reject, the two distinct error values (errors.Is) and Size() are compared with the reference rule. The descriptor/checksum space is enumerated completely (exhaustive=true); 64-bit content sizes are sampled (2 quick / 16 thorough values incl. 2^64-1, 2^63, 2^31).",
   ref="6/C19"),
}

NOT_APPLICABLE = []
ALL = ["C%02d"%i for i in range(1,21)]

def main():
    checks=[]
    for pid in sorted(CHECKS):
        c=CHECKS[pid]
        checks.append({
          "property_id": pid,
          "quick_cmd": "./run.sh %s quick"%pid,
          "thorough_cmd": "./run.sh %s thorough"%pid,
          "evidence_file": "/verif/evidence/%s.json"%pid,
          "replay_cmd_template": "./run.sh --replay {path}",
          "engine": "vcheck",
          "level_claimed": {"category": c["cat"], "text": c["text"], "design_ref": "DESIGN.md section "+c["ref"]},
          "level_note": c.get("note", TRUST),
          "technique": c["tech"],
        })
    hooks_commits = subprocess.check_output(["git","-C","/repo","log","--format=%H","--grep=^verif hooks"]).decode().split()
    m={
      "version": 1,
      "setup_cmd": "cd /verif && GOFLAGS=-mod=mod GOPROXY=off GOSUMDB=off GOTOOLCHAIN=local go build -o .bin/vcheck ./cmd/vcheck && GOFLAGS=-mod=mod GOPROXY=off GOSUMDB=off GOTOOLCHAIN=local go build -tags verif -o .bin/worker_asm ./cmd/worker",
      "hooks": {
        "guard": "verif",
        "enable": "go build -tags verif (the harness module /verif has `replace github.com/pierrec/lz4/v4 => /repo`, so every check rebuilds its workers from /repo's working tree; variants add noasm / -race / -asan)",
        "baseline_off_cmd": "/verif/baseline.sh",
        "source_commits": hooks_commits,
        "add_only": True,
      },
      "engines": [
        {"name":"vcheck","path":"/verif/cmd/vcheck","serves_properties":sorted(CHECKS),"kind_free_text":"parent driver: rebuilds workers from /repo, shards seeded case streams over child processes, observes exits/deaths/watchdog dumps/race logs, classifies against known_findings.json, writes evidence"},
        {"name":"worker","path":"/verif/cmd/worker","serves_properties":sorted(CHECKS),"kind_free_text":"child: executes the real library under monitors (reference oracles, guard pages, canaries, poisoned pools, scheduling perturbation, budgets)"},
      ],
      "checks": checks,
      "not_applicable": NOT_APPLICABLE + [{"property_id":p,"reason":"no check registered yet: the runtime-monitoring check for this property is still being built (DESIGN.md section 6 describes it)"} for p in ALL if p not in CHECKS and p not in [n["property_id"] for n in NOT_APPLICABLE]],
      "notes": "Runtime monitoring only. Known findings and fixed defects: /verif/known_findings.json. ./run.sh <id> [quick|thorough] honours VERIF_SEED and VERIF_TIER.",
    }
    json.dump(m, open("/verif/MANIFEST.json","w"), indent=1)
    try:
        import jsonschema
        jsonschema.validate(m, json.load(open("/root/.vp/MANIFEST.schema.json")))
        print("MANIFEST.json valid,", len(checks), "checks")
    except ImportError:
        print("jsonschema not available; written without validation")

if __name__=="__main__":
    main()
