#!/usr/bin/env python3
"""Regenerates /verif/MANIFEST.json from the table below (and validates it)."""
import json, subprocess, sys

TRUST = ("Trusted base: the independent reference implementations in /verif/internal/ref (self-checked on every run against "
         "published XXH32 vectors and the C-produced golden .lz4 files), the Go toolchain/runtime (race detector, checkptr, asan), "
         "the kernel's page protection. amd64 assembly and portable Go only; no arm hardware.")

CHECKS = {
 "C08": dict(cat="exploration", tech="Go race detector + poisoned quarantine pool + seeded scheduling perturbation at hook sites + hook event log checked offline (FIFO, exactly-once) + in-process deadlock monitor + goroutine census, on the real concurrent Writer and Reader",
   text="1500 (quick) / 30000 (thorough) pipeline runs in the -race build with the verif hooks on. Race reports are parsed from the detector's logs and de-duplicated; released block buffers are poisoned, quarantined and re-verified (write after release), poison in output is read after release, double releases are recorded; the ordering goroutine's event order is compared with the submit order; output bytes are compared with the sequential Writer's; deadlock and leaks are decided from goroutine states, runaway loops from a bound on the hook sites one call passes. Writer runs vary content/block checksums, legacy frames and content sizes (one with a zero header checksum byte); Reader runs include corrupt blocks, failing sources and a Reset while the pipeline of the previous frame is still running. Interleavings are sampled: the evidence reports the number of distinct ones observed.",
   ref="6/C08"),
 "C14": dict(cat="exploration", tech="differential runtime monitoring of the real compressors under real histories (fresh vs reused vs pooled objects, failed calls, related inputs, concurrent pool churn) and of the real Writer across concurrency levels, schedules (perturbation hooks), poisoned pools and Write partitions, in plain and -race builds",
   text="Block half: every (source, depth, destination size) output of a fresh object is compared byte for byte with the same call after six kinds of history and from the package pools under goroutine churn. Frame half (-race build, poison pool, perturbation): sink bytes for concurrency {1,2,4,16} x 5 partition styles (and ReadFrom x 4 source fragmentation modes) must equal one Write at concurrency 1. Writers with a past (another frame with other options that was closed, abandoned in mid-frame, or whose header write failed; then Reset and Apply) must emit the same bytes as a new Writer. Flush scripts: the same Flush byte offsets with different Write partitions at every concurrency level must give identical frames.",
   ref="6/C14"),
 "C15": dict(cat="fault_enumeration", tech="I/O fault enumeration on the real Writer and Reader: a dry run counts the sink / source calls, then every call index fails (persistent and transient; with zero bytes and with a proper prefix / some data); errors are matched with errors.Is against the injected values; fragmenting sources for the independence clause",
   text="Every sink call index of 5 scripts x 12 configurations and every source call index of every seed frame x 6 reader modes is failed in turn; the first injected error must be returned by Write/ReadFrom/Flush or at the latest by Close, the sink must hold a prefix of the fault-free output, a Reader must never end cleanly and must return an injected error, delivered bytes are a prefix. All four fragmentation modes must decode exactly like a plain source.",
   ref="6/C15"),
 "C16": dict(cat="exploration", tech="differential runtime monitoring: dependent-block frames built by an independent encoder (content known by construction, re-validated by the independent parser) decoded by the real Reader in every concurrency / read-buffer mode, assembly and noasm builds",
   text="1200 (quick) generated linked frames per build covering tiny to maximal blocks, matches reaching one and many blocks back, offset 65535, stored blocks and the 128 KiB trim threshold, each read 8 ways; plus the reference encoder's linked golden file. The evidence counts the cross-block matches, offset-65535 matches and stored blocks that were actually decoded.",
   ref="6/C16"),
 "C18": dict(cat="exploration", tech="per-call contract monitor on the real CompressingReader plus the independent strict frame parser on the concatenated output; read sizes enumerated as all cyclic triples over boundary classes derived from the frame layout; source fault enumeration",
   text="For 96 (source, options) bases every triple of read-size classes (including sizes that end exactly on a block-record boundary and sizes below the 7-byte header) is executed (all triples for sources up to 70000 bytes, seeded samples above), 400k patterns quick; each result must be one conforming frame for the source with no trailing bytes; every source call index is failed in turn (persistent, with data, and transient on a fragmenting source); a reader reused with Reset after being abandoned mid-stream / read by one exact-length read / read to EOF / never read must again yield one conforming frame, also when the next user applies another block size and other checksum flags after Reset. The compression level is observed through a probe whose blocks encode differently per level (a block equal to another level's output is a violation).",
   ref="6/C18"),
 "C20": dict(cat="exploration", tech="end-to-end runtime monitoring of the lz4c binary built against the working tree: files through compress/uncompress in scratch directories, output parsed by the independent frame parser, header bits checked against the usage text, bytes compared with the library Writer, mode bits compared",
   text="192 (quick) / 1500 (thorough) invocation cases over flag sets, file sizes on block boundaries, contents, mode bits, umasks, file and stdin/stdout operation and multi-file invocations (also files made with different settings uncompressed together, in both orders); every .lz4 file is also decoded by the reference lz4 command where it is installed.",
   ref="6/C20"),
 "C05": dict(cat="exploration", tech="differential runtime monitoring on corrupted frames: whenever the real Reader ends cleanly, an independent frame parser is run on exactly the consumed bytes (counting source) and must accept them and yield the same output",
   text="Seed frames of the option combinations are corrupted by every single-bit flip of every structural field (with and without repairing the header checksum), block delete/duplicate/swap/insert/splice (with and without repairing the content checksum), payload flips (with and without repairing the block checksum), multi-bit flips, substitutions and hostile field values; each mutant is read with several concurrency/read-mode combinations. The evidence counts how many mutants the Reader accepted and that the oracle agreed on each. Hand-built frames of more than 4 GiB of content with a wrong content checksum must be refused.",
   ref="6/C05"),
 "C06": dict(cat="fault_enumeration", tech="crash-point enumeration: every prefix length of small frames (structural boundaries +-3 and seeded cuts for large ones) read by real Readers; verdict from the returned error and delivered bytes",
   text="Every cut position 1..len-1 of 26 small seed frames (all option combinations that change the layout, legacy, dependent blocks, a skippable frame in front; half of the readers get a source that also implements io.Seeker) is executed against Readers with concurrency {1,2,4} through Read (buffered and direct) and WriteTo: no clean end of stream, delivered bytes are a prefix. For the three large frames cuts are enumerated at every field boundary +-3 plus seeded interior positions.",
   ref="6/C06"),
 "C07": dict(cat="exploration", tech="hostile-input stress in child processes with monitors: panic recovery, process-death classification (stack overflow, fault), step budgets (runaway loop), allocation-profile monitor (runtime.MemProfile at rate 1: size of every allocation made directly by library code), goroutine-stack growth monitor, first-word classifier, exact-skip check",
   text="Random, mutated and grammar-built hostile streams and 10M-fold repetitions of a single field are fed to real Readers (concurrency 1 and 4, Read and WriteTo) inside child processes; a child that dies is itself the observation. Liveness is restated as bounded progress on finite budgeted sources. No allocation made directly by library code may exceed 2 x the block maximum the input itself declares + 256 KiB; goroutine stacks may not grow by more than 64 MiB (recursion proportional to the input); peak RSS is recorded as an observation only. WriteTo destinations rotate between a bare writer, a destination with the optional Grow method that records what it is asked to reserve (same bound) and a real bytes.Buffer (reservations through Grow are attributed to the library).",
   ref="6/C07"),
 "C17": dict(cat="exploration", tech="model-based runtime monitoring of call histories: exhaustive enumeration of all call sequences up to length 4 (thorough 5) over parameterised Writer and Reader alphabets plus seeded long and directed sequences, executed on the real objects under an executable lifecycle model, an in-process state-based deadlock monitor, budgeted sinks/sources and differential replay on fresh objects",
   text="170k histories (quick) are executed on sequential and concurrent objects. The model asserts only the clauses of the property; deadlock is decided from goroutine states (every goroutine inside the library parked, none runnable), runaway loops from call budgets and from a bound on the hook sites one call passes. Every history ends with an unjudged clean-up Close / drain (a hang there is reported). Sequences beyond the bound are sampled. 100 directed histories observe the compression level (applied before the first write, kept across Close/Reset, through ReadFrom, not undone by applying another option) through a probe whose blocks encode differently per level.",
   ref="6/C17"),
 "C01": dict(cat="exploration", tech="differential runtime monitoring: every compressor entry point (package function, fresh, long-lived reused object incl. failed calls in its history; fast and HC at 17 depths) on a class-structured seeded source stream, decoded by the library and by an independent reference decoder",
   text="Real compress/decompress executions over sources built to hit the anchored mechanisms (window edge 65534..65537 with dense runs so the scan reaches it, 16-bit table aliasing beyond 64 KiB, multi-byte length codes, tails around the 14-byte limit, all strings over {a,b} up to length 12/17, sizes to 4 MiB); the evidence counts what the emitted blocks actually contained (offset 65535, matches after 64 KiB, multi-byte lengths). Held on the executions observed; inputs are sampled.",
   ref="6/C01"),
 "C10": dict(cat="exploration", tech="online oracle: independent strict LZ4 block validator over every block any compressor returns, for several destination sizes (partial successes)",
   text="Same source stream as C01; every returned block with n>0 is parsed sequence by sequence by an independent validator that enforces offset range, literals-only final sequence, 5 trailing literals, last match >= 12 bytes from the end, and decoding to the source. Counters show how many validated blocks ended with exactly 5 literals / a last match exactly 12 bytes before the end.",
   ref="6/C10"),
 "C11": dict(cat="exploration", tech="runtime monitors around the real compressors: canary-filled spare capacity, guard-page-terminated destinations, contract assertions on (n, err), reference decode of every positive result; destination length swept exhaustively for small bounds",
   text="For each source every destination length 0..bound+3 (bound <= 400, thorough 3000) or a boundary list plus seeded lengths just below the achievable size is executed with the destination as a sub-slice of a canary buffer and ending at an unmapped page; panic, n>len, canary change, zero/err at >= bound, err with n != 0 and incomplete blocks are violations.",
   ref="6/C11"),
 "C03": dict(cat="exploration", tech="memory-safety monitoring of the real decoders (amd64 assembly and portable, thorough also -asan and checkptr builds): mmap/mprotect guard pages on both sides with read-only inputs and SetPanicOnFault, canaries in spare capacity, child-process isolation",
   text="About 8M decode executions (quick) over the full block-grammar class product placed 0..49 bytes from the end of src/dst, valid blocks into every destination length, mutants, token-biased random bytes and nil/empty slices, each in 4 memory placements. A fault at a guard page is attributed to the buffer and side. Guard pages see only accesses leaving the buffer on the side next to the unmapped page (both alignments are run); the assembly is invisible to asan/checkptr, so for it the guard pages and canaries are the only sanitizer.",
   ref="6/C03"),
 "C04": dict(cat="exploration", tech="three-valued differential oracle: independent byte-at-a-time reference block decoder (strict / lenient / must-reject) against both real decoders on the grammar class product with dictionaries, plus placement/prior-content independence",
   text="Every (literal class x offset class x match class x distance-to-end x dictionary) point of the quantifier is generated and executed against the assembly and the portable decoder; accepted bytes must equal the reference's, must-reject classes must be rejected, strictly valid blocks that fit must be accepted, and the result must not change with the destination's prior contents or placement.",
   ref="6/C04"),
 "C12": dict(cat="exploration", tech="offline join of recorded result logs: the default (assembly) and the noasm build execute the same seeded triple stream and log (ok/err, n, hash of dst[:n]); records are compared by (case, triple)",
   text="Two builds of the same worker, same seed, ~2M joined records (quick); any differing outcome, length or byte hash is a violation. amd64 assembly vs portable Go only.",
   ref="6/C12"),
 "C02": dict(cat="exploration", tech="round-trip monitoring through the real Writer and Reader over the full option product (256 configurations x rotated/all levels) x input classes x 4 delivery modes x 4 reader concurrencies x 4 read modes, with budgeted sinks/sources (runaway-loop detector)",
   text="Every accepted option combination is executed; inputs sit on block boundaries and include crafted zero-checksum contents (block, content and header checksum) and flushed message streams in which a block's size word equals the number of bytes decoded so far; each emitted stream is decoded by fresh Readers through WriteTo and Read with buffered/direct/mixed buffer sequences. Held on the executions observed (about 50k reader runs quick).",
   ref="6/C02"),
 "C09": dict(cat="exploration", tech="online oracle: independent LZ4 frame parser + strict-writer conformance rules (block checksum over stored bytes per the specification) on every stream the real Writer emits",
   text="Same write stream as C02; the sink bytes are parsed by the independent implementation (magic, descriptor bits, header checksum, block size limits, strict block validity, block checksum domain, end mark, content checksum, no trailing bytes, legacy layout) and compared with the configuration and the input. Required observations: stored blocks, zero-valued block and content checksums, multi-block frames. A sample of the accepted frames (all with an empty stored block among them) is also decoded by the reference implementation's lz4 command where it is installed and must give the input (nothing is judged where it is missing).",
   ref="6/C09"),
 "C13": dict(cat="exploration", tech="differential runtime monitoring against an independent XXH32 (exported under the verif tag): exhaustive carry-buffer states, seeded random partitions, 2^32 boundary via state copies",
   text="Every carry-buffer state (0..15 buffered bytes x next-write length class x following write 0..33, fresh and after a stripe) is driven through the real streaming object with Sum32/Sum probes after each write, all one-shot lengths 0..1024 at 4 alignments, seeded random partitions up to 8 MiB, and every total length 2^32-16..2^32+16 (thorough: one-shot on real 4 GiB buffers and the Writer's content-checksum trailer for 2^32+5 bytes). Held-on-what-was-observed, not a proof; the state space of the 16-byte carry buffer is covered completely, content is sampled.",
   ref="6/C13"),
 "C19": dict(cat="exploration", tech="complete run-time enumeration of the 2^24 (descriptor x checksum byte) header space per content-size value through ValidFrameHeader and a fresh Reader, expected outcome from the independent XXH32",
   text="All 65536 descriptors x 256 checksum bytes are executed against the real ValidFrameHeader and Reader (Read, Size) with the content-size field present exactly when the descriptor says so; accept/reject, the two distinct error values (errors.Is) and Size() are compared with the reference rule. The descriptor/checksum space is enumerated completely (exhaustive=true); 64-bit content sizes are sampled (3 quick: 2^64-1, 0, one seeded; 16 thorough incl. 0, 2^63, 2^31).",
   ref="6/C19"),
}

NOT_APPLICABLE = []
ALL = ["C%02d"%i for i in range(1,21)]

def main():
    checks=[]
    for pid in sorted(CHECKS):
        c=CHECKS[pid]
        checks.append({
          "property_id": pid,
          "quick_cmd": "./run.sh %s quick"%pid,
          "thorough_cmd": "./run.sh %s thorough"%pid,
          "evidence_file": "/verif/evidence/%s.json"%pid,
          "replay_cmd_template": "./run.sh --replay {path}",
          "engine": "vcheck",
          "level_claimed": {"category": c["cat"], "text": c["text"], "design_ref": "DESIGN.md section "+c["ref"]},
          "level_note": c.get("note", TRUST),
          "technique": c["tech"],
        })
    hooks_commits = subprocess.check_output(["git","-C","/repo","log","--format=%H","--grep=^verif hooks"]).decode().split()
    m={
      "version": 1,
      "setup_cmd": "cd /verif && GOFLAGS=-mod=mod GOPROXY=off GOSUMDB=off GOTOOLCHAIN=local go build -o .bin/vcheck ./cmd/vcheck && GOFLAGS=-mod=mod GOPROXY=off GOSUMDB=off GOTOOLCHAIN=local go build -tags verif -o .bin/worker_asm ./cmd/worker",
      "hooks": {
        "guard": "verif",
        "enable": "go build -tags verif (the harness module /verif has `replace github.com/pierrec/lz4/v4 => /repo`, so every check rebuilds its workers from /repo's working tree; variants add noasm / -race / -asan)",
        "baseline_off_cmd": "/verif/baseline.sh",
        "source_commits": hooks_commits,
        "add_only": True,
      },
      "engines": [
        {"name":"vcheck","path":"/verif/cmd/vcheck","serves_properties":sorted(CHECKS),"kind_free_text":"parent driver: rebuilds workers from /repo, shards seeded case streams over child processes, observes exits/deaths/watchdog dumps/race logs, classifies against known_findings.json, writes evidence"},
        {"name":"worker","path":"/verif/cmd/worker","serves_properties":sorted(CHECKS),"kind_free_text":"child: executes the real library under monitors (reference oracles, guard pages, canaries, poisoned pools, scheduling perturbation, budgets)"},
      ],
      "checks": checks,
      "not_applicable": NOT_APPLICABLE + [{"property_id":p,"reason":"no check registered yet: the runtime-monitoring check for this property is still being built (DESIGN.md section 6 describes it)"} for p in ALL if p not in CHECKS and p not in [n["property_id"] for n in NOT_APPLICABLE]],
      "notes": "Runtime monitoring only. Known findings and fixed defects: /verif/known_findings.json. ./run.sh <id> [quick|thorough] honours VERIF_SEED and VERIF_TIER.",
    }
    json.dump(m, open("/verif/MANIFEST.json","w"), indent=1)
    try:
        import jsonschema
        jsonschema.validate(m, json.load(open("/root/.vp/MANIFEST.schema.json")))
        print("MANIFEST.json valid,", len(checks), "checks")
    except ImportError:
        print("jsonschema not available; written without validation")

if __name__=="__main__":
    main()
