#!/bin/bash
# usage: tools/mutbatch.sh <logfile> <<'LIST'   (lines: "<seeded-name> <prop> [<prop>...]")
# Takes ONE snapshot of the framework's working tree first, so later edits do not disturb the batch.
log=$1
snap=/tmp/mt/snap.$$
mkdir -p $snap
rsync -a --exclude .git --exclude .bin --exclude .work --exclude evidence --exclude replays /verif/ $snap/
: > $log
while read -r name props; do
  [ -z "$name" ] && continue
  MUTEST_VERIF_SRC=$snap /verif/tools/mutest.sh $snap/seeded/$name $props >> $log 2>&1
done
echo ALLDONE >> $log
rm -rf $snap
