#!/bin/sh
# Runs pierrec/lz4's own test suite with the verif guard OFF and checks that every
# test of the pinned stable baseline (/root/.vp/BASELINE.json) still passes.
# Subtest names containing ConcurrencyOption(<GOMAXPROCS>) are normalised, because the
# baseline was recorded on a machine with a different core count.
export GOFLAGS=-mod=mod GOPROXY=off GOSUMDB=off GOTOOLCHAIN=local
cd /repo || exit 2
out=$(mktemp /tmp/verif-baseline.XXXXXX)
go build ./... || { echo "baseline: build failed"; rm -f "$out"; exit 1; }
go test -json -vet=off -count=1 -timeout 25m ./... > "$out" 2>/dev/null
python3 - "$out" <<'PY'
import json,sys,re
import os
ncpu=os.cpu_count()
def norm(s,n):
    # only the TestReader* subtests use ConcurrencyOption(-1), printed as GOMAXPROCS
    if '::TestReader' in s:
        return s.replace('ConcurrencyOption(%d)'%n,'ConcurrencyOption(MAX)')
    return s
passed=set()
for line in open(sys.argv[1]):
    try: e=json.loads(line)
    except Exception: continue
    if e.get('Action')=='pass' and e.get('Test'):
        passed.add(norm(e['Package']+'::'+e['Test'],ncpu))
base=json.load(open('/root/.vp/BASELINE.json'))
want=set(norm(t,8) for t in base['stable_pass'])
missing=sorted(want-passed)
print("baseline: %d stable tests, %d passing now, %d missing"%(len(want),len(want&passed),len(missing)))
for m in missing: print("  MISSING",m)
sys.exit(1 if missing else 0)
PY
rc=$?
rm -f "$out"
exit $rc
