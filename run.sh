#!/bin/sh
# Entry point of every check:  ./run.sh <Cxx> [quick|thorough]   |   ./run.sh --replay <file>
# Rebuilds the driver and (inside it) the workers from /repo's current working tree.
cd "$(dirname "$(readlink -f "$0")")" || exit 2
export GOFLAGS=-mod=mod GOPROXY=off GOSUMDB=off GOTOOLCHAIN=local
mkdir -p .bin
if ! go build -o .bin/vcheck ./cmd/vcheck 2>.bin/vcheck.build.log; then
  echo "BROKEN: cannot build the driver:" >&2
  cat .bin/vcheck.build.log >&2
  exit 2
fi
exec .bin/vcheck "$@"
