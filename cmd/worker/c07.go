package main

import (
	"bytes"
	"encoding/binary"
	"errors"
	"fmt"
	"io"
	"os"
	"runtime"
	"strconv"
	"strings"

	lz4 "github.com/pierrec/lz4/v4"

	"verif/internal/gen"
	"verif/internal/mon"
	"verif/internal/prng"
	"verif/internal/ref"
)

// C07 – the Reader terminates safely on arbitrary input.

var c07Seeds []seedFrame

var (
	c07Alloc     *mon.AllocWatch
	c07CaseMaxBM int
)

type c07Plan struct{ nRandom, nMutant, nHostile, nWords, nSkip, nRepeat int64 }

func c07PlanFor(c *Ctx) c07Plan {
	p := c07Plan{nRandom: 300, nMutant: int64(len(c07Seeds)) * 2, nHostile: 60, nWords: 64, nSkip: 40, nRepeat: 10}
	if c.Tier == "thorough" {
		p.nRandom, p.nHostile, p.nWords, p.nSkip = 6000, 600, 512, 400
	}
	return p
}

func (p c07Plan) total() int64 {
	return p.nRandom + p.nMutant + p.nHostile + p.nWords + p.nSkip + p.nRepeat
}

func init() {
	register("C07", &PropDef{
		Setup: func(c *Ctx) {
			mon.EnableAllocProfile()
			mon.DebugAlloc = os.Getenv("VERIF_DEBUG_ALLOC") != ""
			gen.LoadTexts(c.Repo)
			c07Seeds = buildSeeds(c, false)
			c07Alloc = mon.NewAllocWatch()
		},
		Total: func(c *Ctx) int64 { return c07PlanFor(c).total() },
		Run: func(c *Ctx, i int64) {
			prevBM := c07CaseMaxBM
			c07CaseMaxBM = 64 << 10
			c07Case(c, i)
			if prevBM > c07CaseMaxBM {
				// the allocation profile is published by GC cycles: be safe against attribution to the next case
				prevBM, c07CaseMaxBM = c07CaseMaxBM, prevBM
			}
			// allocation monitor: no single allocation from library code may exceed what the
			// declared block maximum explains (2 x max + 256 KiB covers the rolling 64 KiB
			// window of dependent blocks, which grows by append)
			limit := int64(2*c07CaseMaxBM + 256<<10)
			for _, a := range c07Alloc.Delta() {
				c.Count("library_allocation_sites_profiled", 1)
				if a.AvgSize > c.counters["max_library_allocation_bytes"] {
					c.counters["max_library_allocation_bytes"] = a.AvgSize
				}
				if a.AvgSize > limit {
					c.Violation("oversized-allocation/"+a.Site, fmt.Sprintf("library code (%s) allocated %d object(s) of %d bytes on average while reading input whose declared block maximum is %d bytes (limit %d)", a.Site, a.Objects, a.AvgSize, c07CaseMaxBM, limit), map[string]interface{}{"site": a.Site, "avg_size": a.AvgSize, "objects": a.Objects, "declared_block_max": c07CaseMaxBM})
				}
			}
		},
	})
}

// memory monitor: peak RSS of this process across one case
func rssKB(field string) int64 {
	b, err := os.ReadFile("/proc/self/status")
	if err != nil {
		return -1
	}
	for _, l := range strings.Split(string(b), "\n") {
		if strings.HasPrefix(l, field+":") {
			f := strings.Fields(l)
			if len(f) >= 2 {
				v, _ := strconv.ParseInt(f[1], 10, 64)
				return v
			}
		}
	}
	return -1
}

func resetPeak() bool {
	return os.WriteFile("/proc/self/clear_refs", []byte("5"), 0o644) == nil
}

// readHostile reads input with a fresh Reader and reports how it ended.
type hostileResult struct {
	out      int64
	err      error
	panicky  bool
	consumed int64
	peakKB   int64
	stackKB  int64 // growth of goroutine stacks in use (deep recursion shows here long before it overflows)
	sum      uint32
}

// c07Dest selects the destination handed to WriteTo: 0 = a bare io.Writer, 1 = a destination
// with the optional Grow method that records what it is asked to reserve, 2 = a real
// *bytes.Buffer (reservations made on it by library code are seen by the allocation monitor,
// bytes.ErrTooLarge panics by the panic guard).
var c07Dest int

// growTrap is an io.Writer with the optional Grow method of bytes.Buffer / strings.Builder.
type growTrap struct {
	h       ref.XXH32State
	maxGrow int
	negGrow bool
	grows   int
}

func (t *growTrap) Write(p []byte) (int, error) { t.h.Write(p); return len(p), nil }
func (t *growTrap) Grow(n int) {
	t.grows++
	if n < 0 {
		t.negGrow = true
	}
	if n > t.maxGrow {
		t.maxGrow = n
	}
}

func readHostile(c *Ctx, src io.Reader, pos func() int64, conc int, mode int, blockMax int, what string, gcFirst bool) hostileResult {
	var res hostileResult
	var trap *growTrap
	if gcFirst {
		runtime.GC()
	}
	okPeak := resetPeak()
	before := rssKB("VmRSS")
	var ms0, ms1 runtime.MemStats
	runtime.ReadMemStats(&ms0)
	res.panicky = c.Guard("Reader/"+what, func() {
		r := lz4.NewReader(src)
		if err := r.Apply(lz4.ConcurrencyOption(conc)); err != nil {
			res.err = err
			return
		}
		var h ref.XXH32State
		h.Reset()
		if mode == rdWriteTo {
			switch c07Dest % 3 {
			case 1:
				trap = &growTrap{}
				trap.h.Reset()
				n, err := r.WriteTo(trap)
				res.out, res.err, res.sum = n, err, trap.h.Sum32()
			case 2:
				var buf bytes.Buffer
				n, err := r.WriteTo(&buf)
				h.Write(buf.Bytes())
				res.out, res.err, res.sum = n, err, h.Sum32()
			default:
				n, err := r.WriteTo(writerFunc(func(p []byte) (int, error) { h.Write(p); return len(p), nil }))
				res.out, res.err, res.sum = n, err, h.Sum32()
			}
			return
		}
		buf := make([]byte, 70000)
		zero := 0
		for {
			n, err := r.Read(buf)
			res.out += int64(n)
			h.Write(buf[:n])
			if err == io.EOF {
				break
			}
			if err != nil {
				res.err = err
				break
			}
			if n == 0 {
				zero++
				if zero > 1000 {
					res.err = errNoProgress
					break
				}
			} else {
				zero = 0
			}
		}
		res.sum = h.Sum32()
	})
	res.consumed = pos()
	if trap != nil {
		c.Count("destinations_with_grow", 1)
		c.Count("grow_calls_observed", int64(trap.grows))
		// what the library may ask the destination to reserve is bounded like its own allocations: the
		// block size the input declares, not a length field the input merely announces
		if trap.negGrow || trap.maxGrow > 2*blockMax+256<<10 {
			c.Violation("destination-reservation/"+what, fmt.Sprintf("WriteTo asked the destination to Grow by %d bytes (negative: %v) while the input declares blocks of at most %d bytes: a reservation driven by an unverified header field (bytes.Buffer would allocate or panic)", trap.maxGrow, trap.negGrow, blockMax),
				map[string]interface{}{"max_grow": trap.maxGrow, "conc": conc, "consumed": res.consumed})
		}
	}
	if okPeak && before > 0 {
		res.peakKB = rssKB("VmHWM") - before
	}
	runtime.ReadMemStats(&ms1)
	res.stackKB = int64(ms1.StackInuse-ms0.StackInuse) / 1024
	if d := int64(ms1.Sys-ms0.Sys) / 1024; d > res.peakKB {
		res.peakKB = d // memory obtained from the OS (reserved, even if never touched)
	}
	return res
}

type writerFunc func(p []byte) (int, error)

func (f writerFunc) Write(p []byte) (int, error) { return f(p) }

// memory bound: 64 MiB + (3*concurrency + 4 + 2*GOMAXPROCS) x declared block maximum
func memBoundKB(conc int, blockMax int) int64 {
	if conc < 1 {
		conc = runtime.GOMAXPROCS(0)
	}
	// 2*GOMAXPROCS: sync.Pool keeps per-P caches of block buffers (observed: 5000 empty 4 MiB-class
	// blocks read with concurrency 4 on 16 CPUs legitimately reach ~150 MiB)
	return 64*1024 + int64(3*conc+4+2*runtime.GOMAXPROCS(0))*int64(blockMax)/1024
}

func c07Judge(c *Ctx, res hostileResult, conc, blockMax int, what string, det map[string]interface{}) {
	if res.panicky {
		return
	}
	if errors.Is(res.err, errNoProgress) {
		c.Violation("no-progress/"+what, "Read returned (0, nil) 1000 times in a row", det)
	}
	// Peak RSS / memory obtained from the OS are recorded as observations only: garbage that has
	// not been collected yet (sync.Pool misses under load) makes them unusable as a verdict
	// (observed: 5000 empty blocks of a 4 MiB-block frame at concurrency 4 transiently reach > 1 GiB).
	if res.peakKB > memBoundKB(conc, blockMax) {
		c.Count("reads_above_peak_memory_guideline", 1)
	}
	if res.stackKB > c.counters["max_stack_growth_kb"] {
		c.counters["max_stack_growth_kb"] = res.stackKB
	}
	if res.stackKB > 64*1024 {
		det["stack_growth_kb"] = res.stackKB
		c.Violation("stack-growth/"+what, fmt.Sprintf("goroutine stacks grew by %d KiB while reading (%s, concurrency %d): recursion depth proportional to the input", res.stackKB, what, conc), det)
	}
	if res.peakKB > c.counters["max_peak_kb"] {
		c.counters["max_peak_kb"] = res.peakKB
	}
	if k := fmt.Sprintf("max_peak_kb_blockmax_%dK_conc%d", blockMax>>10, conc); res.peakKB > c.counters[k] {
		c.counters[k] = res.peakKB
	}
}

func c07Case(c *Ctx, i int64) {
	p := c07PlanFor(c)
	g := c.Rng(i)
	concs := []int{1, 4}
	modes := []int{rdSmall, rdWriteTo}
	runAll := func(data []byte, what string, det map[string]interface{}) {
		bm := declaredBlockMax(data)
		if bm > c07CaseMaxBM {
			c07CaseMaxBM = bm
		}
		for ci, conc := range concs {
			for _, mode := range modes {
				src := &gen.Source{Data: data, G: g, Budget: 3000 + 3*len(data)}
				c.Tag(what)
				c07Dest = int(c.curCase) + ci + 1
				res := readHostile(c, src, func() int64 { return int64(src.Pos) }, conc, mode, bm, what, false)
				c.Count("hostile_reads", 1)
				c07Judge(c, res, conc, bm, what, det)
				out := "error"
				if res.err == nil {
					out = "clean"
				}
				c.Cell(fmt.Sprintf("%s/%s/conc%d/%s", what, out, conc, rdNames[mode]))
			}
		}
	}
	switch {
	case i < p.nRandom:
		n := g.Pick(0, 1, 3, 4, 5, 7, 8, 11, 15, 100, 1000, 70000)
		b := g.Bytes(n)
		if n >= 4 && g.N(3) > 0 {
			binary.LittleEndian.PutUint32(b, []uint32{ref.MagicFrame, ref.MagicLegacy, ref.MagicSkip + uint32(g.N(16))}[g.N(3)])
			if n >= 7 && g.Bool() {
				b[4] = byte(0x40 | g.N(64))
				b[5] = byte(g.Pick(0x40, 0x50, 0x60, 0x70))
				b[6] = ref.HeaderChecksum(b[4:6])
			}
		}
		runAll(b, "random-bytes", map[string]interface{}{"input": hexs(b)})
		return
	}
	i -= p.nRandom
	if i < p.nMutant {
		s := &c07Seeds[i/2]
		var ms []gen.Mutant
		if i%2 == 0 {
			ms = gen.RandomMutants(g, s.frame, s.pf, 150)
		} else {
			ms = gen.BitFlipsStructural(s.frame, s.pf)
			if len(ms) > 200 {
				ms = ms[:200]
			}
		}
		for _, m := range ms {
			runAll(m.Bytes, "mutant", map[string]interface{}{"seed": s.name, "mutator": m.Kind, "field": m.Field, "input": hexs(m.Bytes)})
		}
		return
	}
	i -= p.nMutant
	if i < p.nHostile {
		b := c07HostileFrame(g, int(i))
		runAll(b, "hostile-fields", map[string]interface{}{"input": hexs(b)})
		return
	}
	i -= p.nHostile
	if i < p.nWords {
		c07Words(c, i, g, p)
		return
	}
	i -= p.nWords
	if i < p.nSkip {
		c07Skippable(c, i, g)
		return
	}
	i -= p.nSkip
	c07Repeat(c, int(i), g)
}

// c07HostileFrame builds a syntactically plausible frame with hostile fields.
func c07HostileFrame(g *prng.Rng, k int) []byte {
	var b []byte
	hdr := func(flg, bd byte, size uint64, hasSize bool) {
		b = binary.LittleEndian.AppendUint32(b, ref.MagicFrame)
		if hasSize {
			flg |= 0x08
		}
		d0 := len(b)
		b = append(b, flg, bd)
		if hasSize {
			b = binary.LittleEndian.AppendUint64(b, size)
		}
		b = append(b, ref.HeaderChecksum(b[d0:]))
	}
	bd := byte(g.Pick(0x40, 0x50, 0x60, 0x70))
	flg := byte(0x60)
	if g.Bool() {
		flg |= 0x10
	}
	if g.Bool() {
		flg |= 0x04
	}
	switch k % 11 {
	case 0: // block size 2^31-1
		hdr(flg, bd, 0, false)
		b = binary.LittleEndian.AppendUint32(b, 0x7FFFFFFF)
		b = append(b, g.Bytes(100)...)
	case 1: // stored block of size 2^31-1
		hdr(flg, bd, 0, false)
		b = binary.LittleEndian.AppendUint32(b, 0xFFFFFFFF)
		b = append(b, g.Bytes(100)...)
	case 2: // a hostile content size (2^64-1, 2^63-1, 2^62, 2^40, 2^32, 2^31, 2^30, ...), then a tiny valid block
		sizes := []uint64{^uint64(0), 1 << 62, 1 << 30, 1<<63 - 1, 3 << 28, 1 << 40, 1 << 63, 1 << 32, 1<<31 - 1, 1<<33 + 7}
		hdr(flg&^0x14, bd, sizes[(k/11)%len(sizes)], true)
		b = binary.LittleEndian.AppendUint32(b, 0x80000003)
		b = append(b, 'a', 'b', 'c', 0, 0, 0, 0)
	case 3: // block just above the declared maximum
		hdr(flg&^0x14, 0x40, 0, false)
		b = binary.LittleEndian.AppendUint32(b, 65537)
		b = append(b, g.Bytes(65537)...)
		b = append(b, 0, 0, 0, 0)
	case 4: // compressed block announcing a gigantic literal run
		hdr(flg&^0x14, 0x40, 0, false)
		blk := []byte{0xF0}
		for j := 0; j < 600; j++ {
			blk = append(blk, 255)
		}
		blk = append(blk, 0)
		b = binary.LittleEndian.AppendUint32(b, uint32(len(blk)))
		b = append(b, blk...)
		b = append(b, 0, 0, 0, 0)
	case 5: // compressed block with a gigantic match length
		hdr(flg&^0x14, 0x70, 0, false)
		blk := []byte{0x1F, 'x', 1, 0}
		for j := 0; j < 60000; j++ {
			blk = append(blk, 255)
		}
		blk = append(blk, 7, 0x50, 'a', 'b', 'c', 'd', 'e')
		b = binary.LittleEndian.AppendUint32(b, uint32(len(blk)))
		b = append(b, blk...)
		b = append(b, 0, 0, 0, 0)
	case 6: // skippable frame longer than the input / zero-length skippable frames and nothing else
		b = binary.LittleEndian.AppendUint32(b, ref.MagicSkip+uint32(g.N(16)))
		l := uint32(g.Pick(0xFFFFFFFF, 0x7FFFFFFF, 0x80000000, 1000, 0, 0))
		b = binary.LittleEndian.AppendUint32(b, l)
		if l != 0 {
			b = append(b, g.Bytes(50)...)
		} else if g.Bool() {
			b = binary.LittleEndian.AppendUint32(b, ref.MagicSkip)
			b = binary.LittleEndian.AppendUint32(b, 0)
		}
	case 7: // legacy frame with an oversized block
		b = binary.LittleEndian.AppendUint32(b, ref.MagicLegacy)
		b = binary.LittleEndian.AppendUint32(b, uint32(g.Pick(0x7FFFFFFF, 8<<20+1, 0xFFFFFFFF, 0x80000000)))
		b = append(b, g.Bytes(64)...)
	case 9: // legacy frame: a valid block, then a trailing word 0 / the decoded size / garbage
		b = binary.LittleEndian.AppendUint32(b, ref.MagicLegacy)
		b = append(b, 3, 0, 0, 0, 0x20, 'h', 'i')
		b = binary.LittleEndian.AppendUint32(b, uint32(g.Pick(0, 2, 0, 0xFFFFFFFF)))
		if g.Bool() {
			b = append(b, g.Bytes(g.N(9))...)
		}
	case 8: // legacy frame: tiny block expanding a lot (run)
		b = binary.LittleEndian.AppendUint32(b, ref.MagicLegacy)
		blk := []byte{0x1F, 'x', 1, 0}
		for j := 0; j < 32000; j++ {
			blk = append(blk, 255)
		}
		blk = append(blk, 7, 0x50, 'a', 'b', 'c', 'd', 'e')
		b = binary.LittleEndian.AppendUint32(b, uint32(len(blk)))
		b = append(b, blk...)
	default: // many empty stored blocks then garbage
		hdr(flg&^0x14, bd, 0, false)
		for j := 0; j < 5000; j++ {
			b = binary.LittleEndian.AppendUint32(b, 0x80000000)
		}
		b = append(b, g.Bytes(9)...)
	}
	return b
}

// c07Words: first-word classification.  A word that is neither a frame magic
// nor one of the 16 skippable magics must be reported as ErrInvalidFrame.
func c07Words(c *Ctx, i int64, g *prng.Rng, p c07Plan) {
	var words []uint32
	switch {
	case i < 4: // all 256 values 0x184D2Axx, in four chunks
		for x := int(i) * 64; x < int(i)*64+64; x++ {
			words = append(words, 0x184D2A00|uint32(x))
		}
	case i < 8: // every 1- and 2-bit neighbour of the three magics
		base := []uint32{ref.MagicFrame, ref.MagicLegacy, ref.MagicSkip, ref.MagicSkip + 15}[i-4]
		for a := 0; a < 32; a++ {
			words = append(words, base^(1<<uint(a)))
			for b := a + 1; b < 32; b++ {
				words = append(words, base^(1<<uint(a))^(1<<uint(b)))
			}
		}
	default:
		n := 16000
		for k := 0; k < n; k++ {
			w := uint32(g.Next())
			if g.N(4) == 0 {
				w = 0x184D2000 | w&0xFFF
			}
			words = append(words, w)
		}
	}
	payload := []byte{0x64, 0x40, 0xA7, 0x03, 0x00, 0x00, 0x80, 'a', 'b', 'c', 0, 0, 0, 0, 0xD4, 0xA5, 0xD1, 0x8A}
	payload = payload[:14] // FLG/BD/HC, one stored block "abc", end mark (content checksum flag set but the value is irrelevant: we never get there for non-magics)
	for _, w := range words {
		if w == ref.MagicFrame || w == ref.MagicLegacy {
			continue
		}
		isSkip := w>>4 == ref.MagicSkip>>4
		in := binary.LittleEndian.AppendUint32(nil, w)
		if isSkip {
			continue // C07's skippable sub-check handles these
		}
		in = append(in, payload...)
		for _, conc := range []int{1, 4} {
			var n int
			var err error
			if c.Guard("Reader/first-word", func() {
				r := lz4.NewReader(bytes.NewReader(in))
				r.Apply(lz4.ConcurrencyOption(conc))
				var buf [64]byte
				n, err = r.Read(buf[:])
			}) {
				continue
			}
			c.Count("first_words_tested", 1)
			if !errors.Is(err, lz4.ErrInvalidFrame) {
				key := "non-magic-not-invalid-frame"
				if w>>8 == ref.MagicSkip>>8 {
					key = "non-magic-not-invalid-frame/0x184D2Axx-outside-50..5F"
				}
				c.Violation(key, fmt.Sprintf("first word %08x is neither a frame magic nor one of the 16 skippable magics, but Reader.Read returned (%d, %v) instead of ErrInvalidFrame", w, n, err), map[string]interface{}{"word": fmt.Sprintf("%08x", w), "conc": conc})
			}
		}
	}
	c.Cell(fmt.Sprintf("first-word/chunk%d", i))
}

// c07Skippable: exactly the announced number of bytes is skipped for the 16 magics.
func c07Skippable(c *Ctx, i int64, g *prng.Rng) {
	s := &c07Seeds[int(i)%len(c07Seeds)]
	if s.pf.Legacy {
		s = &c07Seeds[0]
	}
	c07CaseMaxBM = s.cfg.blockMax()
	nframes := 1 + g.N(3)
	var in []byte
	for k := 0; k < nframes; k++ {
		in = binary.LittleEndian.AppendUint32(in, ref.MagicSkip+uint32((int(i)+k*5)%16))
		l := g.Pick(0, 1, 3, 4, 7, 100, 70000)
		in = binary.LittleEndian.AppendUint32(in, uint32(l))
		// junk that looks like a frame start, so that a wrong skip length is noticed
		junk := g.Bytes(l)
		if l >= 4 {
			binary.LittleEndian.PutUint32(junk, ref.MagicFrame)
		}
		in = append(in, junk...)
	}
	in = append(in, s.frame...)
	for _, conc := range []int{1, 4} {
		for _, mode := range []int{rdSmall, rdWriteTo} {
			rr := readStream(c, in, conc, mode, s.cfg.blockMax(), g, gen.ReadPlain)
			c.Count("skippable_reads", 1)
			if rr.panicky {
				continue
			}
			if rr.err != nil || !bytes.Equal(rr.out, s.input) {
				c.Violation("skippable-frame-not-skipped-exactly", fmt.Sprintf("%d skippable frame(s) in front of a valid frame: Reader(conc %d, %s) returns %d bytes, err=%v (content %d bytes)", nframes, conc, rdNames[mode], len(rr.out), rr.err, len(s.input)), map[string]interface{}{"input": hexs(head(in, 200)), "seed": s.name})
			}
			c.Cell(fmt.Sprintf("skippable/magic%x/conc%d/%s", int(i)%16, conc, rdNames[mode]))
		}
	}
	// the same stream from operating-system files: a pipe (not seekable), a regular file, and a regular
	// file cut inside the last skippable frame's user data (seeking past the end of a file succeeds)
	c07FromFiles(c, i, in, s, g)
}

func c07FromFiles(c *Ctx, i int64, in []byte, s *seedFrame, g *prng.Rng) {
	readAll := func(what string, f *os.File, conc int) (out []byte, err error, panicky bool) {
		panicky = c.Guard("Reader/"+what, func() {
			r := lz4.NewReader(f)
			if e := r.Apply(lz4.ConcurrencyOption(conc)); e != nil {
				err = e
				return
			}
			var buf bytes.Buffer
			_, err = r.WriteTo(&buf)
			out = buf.Bytes()
		})
		return
	}
	conc := []int{1, 4}[int(i)%2]
	// pipe
	if pr, pw, perr := os.Pipe(); perr == nil {
		go func() {
			_, _ = pw.Write(in)
			_ = pw.Close()
		}()
		out, err, panicky := readAll("pipe", pr, conc)
		_ = pr.Close()
		c.Count("skippable_reads_from_os_files", 1)
		if !panicky && (err != nil || !bytes.Equal(out, s.input)) {
			c.Violation("skippable-frame-not-skipped-exactly/pipe", fmt.Sprintf("skippable frame(s) in front of a valid frame read from a pipe (*os.File, not seekable): Reader(conc %d) returns %d bytes, err=%v (content %d bytes)", conc, len(out), err, len(s.input)), map[string]interface{}{"input": hexs(head(in, 200)), "seed": s.name})
		}
		c.Cell(fmt.Sprintf("skippable/pipe/conc%d", conc))
	}
	// regular file, complete and cut inside the user data of the first skippable frame
	first := int(binary.LittleEndian.Uint32(in[4:8]))
	for v := 0; v < 2; v++ {
		data := in
		if v == 1 {
			if first < 3 {
				continue
			}
			data = in[:8+1+g.N(first-1)]
		}
		f, ferr := os.CreateTemp(".", "c07-skip-*")
		if ferr != nil {
			c.Count("temp_file_failures", 1)
			return
		}
		name := f.Name()
		_, _ = f.Write(data)
		_ = f.Close()
		rf, oerr := os.Open(name)
		if oerr != nil {
			_ = os.Remove(name)
			continue
		}
		out, err, panicky := readAll("file", rf, conc)
		_ = rf.Close()
		_ = os.Remove(name)
		c.Count("skippable_reads_from_os_files", 1)
		if panicky {
			continue
		}
		if v == 0 && (err != nil || !bytes.Equal(out, s.input)) {
			c.Violation("skippable-frame-not-skipped-exactly/file", fmt.Sprintf("skippable frame(s) in front of a valid frame read from a regular file: Reader(conc %d) returns %d bytes, err=%v (content %d bytes)", conc, len(out), err, len(s.input)), map[string]interface{}{"input": hexs(head(in, 200)), "seed": s.name})
		}
		if v == 1 && err == nil {
			c.Violation("truncated-skippable-frame-clean-eof/file", fmt.Sprintf("a regular file cut inside the user data of a skippable frame (%d of %d announced bytes present) is read to a clean end of stream by Reader(conc %d)", len(data)-8, first, conc), map[string]interface{}{"input": hexs(head(data, 200))})
		}
		c.Cell(fmt.Sprintf("skippable/file/cut%d/conc%d", v, conc))
	}
}

// repeatSource streams N copies of a pattern (no memory), then a tail.
type repeatSource struct {
	pat   []byte
	n     int64
	tail  []byte
	pos   int64
	calls int64
}

func (r *repeatSource) Read(p []byte) (int, error) {
	r.calls++
	total := r.n*int64(len(r.pat)) + int64(len(r.tail))
	if r.pos >= total {
		return 0, io.EOF
	}
	n := 0
	for n < len(p) && r.pos < total {
		var b byte
		if r.pos < r.n*int64(len(r.pat)) {
			b = r.pat[r.pos%int64(len(r.pat))]
		} else {
			b = r.tail[r.pos-r.n*int64(len(r.pat))]
		}
		p[n] = b
		n++
		r.pos++
	}
	return n, nil
}

// c07Repeat: long repetitions of a single field.
func c07Repeat(c *Ctx, k int, g *prng.Rng) {
	N := int64(10_000_000)
	if c.Tier == "thorough" {
		N = 25_000_000
	}
	type rep struct {
		name string
		pre  []byte
		pat  []byte
		tail []byte
		n    int64
		conc int
		mode int
		bm   int
	}
	u32 := func(v uint32) []byte { return binary.LittleEndian.AppendUint32(nil, v) }
	modernHdr := append(u32(ref.MagicFrame), 0x60, 0x40, ref.HeaderChecksum([]byte{0x60, 0x40}))
	legacyBlock := append(u32(3), 0x20, 'h', 'i') // a 2-literal block
	reps := []rep{
		{"legacy-magic-repeated", nil, u32(ref.MagicLegacy), legacyBlock, N, 1, rdSmall, 8 << 20},
		{"legacy-magic-repeated", nil, u32(ref.MagicLegacy), legacyBlock, N, 1, rdWriteTo, 8 << 20},
		{"legacy-magic-repeated", nil, u32(ref.MagicLegacy), legacyBlock, N / 10, 4, rdSmall, 8 << 20},
		{"skippable-frames-repeated", nil, append(append(u32(ref.MagicSkip+3), u32(2)...), 'x', 'y'), append(append([]byte{}, modernHdr...), 0, 0, 0, 0), N, 1, rdSmall, 64 << 10},
		{"skippable-frames-repeated", nil, append(u32(ref.MagicSkip+9), u32(0)...), append(append([]byte{}, modernHdr...), 0, 0, 0, 0), N / 2, 4, rdWriteTo, 64 << 10},
		{"empty-stored-blocks-repeated", modernHdr, u32(0x80000000), u32(0), N / 2, 1, rdSmall, 64 << 10},
		{"empty-stored-blocks-repeated", modernHdr, u32(0x80000000), u32(0), N / 2, 1, rdWriteTo, 64 << 10},
		{"empty-stored-blocks-repeated", modernHdr, u32(0x80000000), u32(0), N / 20, 4, rdSmall, 64 << 10},
		{"one-byte-blocks-repeated", modernHdr, append(u32(0x80000001), 'z'), u32(0), N / 4, 1, rdWriteTo, 64 << 10},
		{"one-byte-blocks-repeated", modernHdr, append(u32(0x80000001), 'z'), u32(0), N / 40, 4, rdSmall, 64 << 10},
	}
	r := reps[k%len(reps)]
	c07CaseMaxBM = r.bm
	src := &repeatSource{pat: r.pat, n: r.n, tail: r.tail}
	var rd io.Reader = src
	if r.pre != nil {
		rd = io.MultiReader(bytes.NewReader(r.pre), src)
	}
	what := r.name
	c.Tag(what)
	res := readHostile(c, rd, func() int64 { return src.pos }, r.conc, r.mode, r.bm, what, true)
	c.Count("repetition_runs", 1)
	det := map[string]interface{}{"pattern": hexs(r.pat), "repetitions": r.n, "conc": r.conc, "mode": rdNames[r.mode], "err": fmt.Sprint(res.err), "out": res.out}
	c07Judge(c, res, r.conc, r.bm, what, det)
	if !res.panicky {
		// all of these inputs are well formed: they must decode cleanly to the expected size
		var want int64
		switch r.name {
		case "legacy-magic-repeated":
			want = 2
		case "one-byte-blocks-repeated":
			want = r.n
		}
		if res.err != nil || res.out != want {
			c.Violation("repetition-not-decoded/"+what, fmt.Sprintf("%d x %x (%s): Reader(conc %d, %s) returned %d bytes, err=%v; expected %d bytes and a clean end", r.n, r.pat, what, r.conc, rdNames[r.mode], res.out, res.err, want), det)
		}
	}
	c.Cell(fmt.Sprintf("%s/conc%d/%s", what, r.conc, rdNames[r.mode]))
	c.Sample(map[string]interface{}{"kind": what, "repetitions": r.n, "conc": r.conc, "mode": rdNames[r.mode], "peak_kb": res.peakKB})
}

// declaredBlockMax is the block maximum the input itself declares (what the
// memory bound is relative to): 8 MiB for legacy streams, the BD code for
// modern frames, 4 MiB when nothing can be told.
func declaredBlockMax(b []byte) int {
	p := 0
	for len(b)-p >= 8 {
		m := binary.LittleEndian.Uint32(b[p:])
		if m>>4 != ref.MagicSkip>>4 {
			break
		}
		n := int(binary.LittleEndian.Uint32(b[p+4:]))
		if n < 0 || p+8+n > len(b) {
			return 4 << 20
		}
		p += 8 + n
	}
	if len(b)-p < 4 {
		return 4 << 20
	}
	switch binary.LittleEndian.Uint32(b[p:]) {
	case ref.MagicLegacy:
		return 8 << 20
	case ref.MagicFrame:
		if len(b)-p >= 6 {
			if bm := ref.BlockMaxForCode(int(b[p+5]>>4) & 7); bm > 0 {
				return bm
			}
		}
	}
	return 4 << 20
}
