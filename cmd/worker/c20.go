package main

import (
	"bytes"
	"fmt"
	"os"
	"os/exec"
	"path/filepath"
	"strings"

	lz4 "github.com/pierrec/lz4/v4"

	"verif/internal/gen"
	"verif/internal/prng"
	"verif/internal/ref"
)

// C20 – the lz4c command, built against the working tree by the parent
// (VERIF_LZ4C names the binary), run in scratch directories.

type c20Flags struct {
	size  string // "", 64K, 256K, 1M, 4M
	bc    bool
	sc    bool
	level int // -1: not given
	conc  int // 0: not given
}

func (f c20Flags) args() []string {
	var a []string
	if f.size != "" {
		a = append(a, "-size", f.size)
	}
	if f.bc {
		a = append(a, "-bc")
	}
	if f.sc {
		a = append(a, "-sc")
	}
	if f.level >= 0 {
		a = append(a, "-l", fmt.Sprint(f.level))
	}
	if f.conc != 0 {
		a = append(a, "-c", fmt.Sprint(f.conc))
	}
	return a
}

func (f c20Flags) blockSize() int {
	switch f.size {
	case "64K":
		return 64 << 10
	case "256K":
		return 256 << 10
	case "1M":
		return 1 << 20
	}
	return 4 << 20
}

// expected configuration according to the usage text of the flags
func (f c20Flags) expect() ref.WriterConfig {
	return ref.WriterConfig{BlockMax: f.blockSize(), BlockChecksum: f.bc, ContentChecksum: !f.sc, NoFlush: true}
}

func c20Total(c *Ctx) int64 {
	if c.Tier == "thorough" {
		return 1500
	}
	return 192
}

func init() {
	register("C20", &PropDef{
		Setup: func(c *Ctx) { gen.LoadTexts(c.Repo) },
		Total: c20Total,
		Run:   c20Case,
	})
}

func c20Run(dir string, umask string, stdin []byte, args ...string) (stdout, stderr []byte, code int, err error) {
	bin := os.Getenv("VERIF_LZ4C")
	sh := fmt.Sprintf("umask %s; exec timeout -s QUIT 120 \"$0\" \"$@\"", umask)
	cmd := exec.Command("sh", append([]string{"-c", sh, bin}, args...)...)
	cmd.Dir = dir
	if stdin != nil {
		cmd.Stdin = bytes.NewReader(stdin)
	}
	var o, e bytes.Buffer
	cmd.Stdout, cmd.Stderr = &o, &e
	err = cmd.Run()
	if ee, ok := err.(*exec.ExitError); ok {
		code = ee.ExitCode()
		err = nil
	}
	return o.Bytes(), e.Bytes(), code, err
}

func c20Case(c *Ctx, i int64) {
	if os.Getenv("VERIF_LZ4C") == "" {
		fatal("VERIF_LZ4C is not set")
	}
	g := c.Rng(i)
	k := int(i)
	// flag set: mixed-radix so that all pairs occur over the case list
	fl := c20Flags{
		size:  []string{"", "64K", "256K", "1M", "4M"}[k%5],
		bc:    (k/5)%2 == 1,
		sc:    (k/2)%2 == 1,
		level: []int{-1, 0, 1, 2, 3, 4, 5, 6, 7, 8, 9}[(k/3)%11],
		conc:  []int{0, 1, 2}[(k/7)%3],
	}
	bs := fl.blockSize()
	var n int
	switch (k / 4) % 8 {
	case 0:
		n = 0
	case 1:
		n = 1
	case 2:
		n = 1000
	case 3:
		n = bs - 1
	case 4:
		n = bs
	case 5:
		n = bs + 1
	case 6:
		n = 3*bs + 777
	default:
		n = g.N(200000)
	}
	if fl.level >= 4 && n > 1<<20 {
		n = 1<<20 + g.N(1000) // keep high compression levels cheap
	}
	var data []byte
	switch k % 3 {
	case 0:
		data = gen.Text(g, c.Repo, n)
	case 1:
		data = g.Bytes(n)
	default:
		data = mixData(g, n)
	}
	// 0664 / 0666 / 0777 have bits that the default umask filters at file creation
	mode := []os.FileMode{0o600, 0o644, 0o755, 0o664, 0o666, 0o777, 0o640}[(k/11)%7]
	umask := []string{"022", "0"}[(k/13)%2]
	useStdio := (k/17)%4 == 3
	// file names: the usual one, names that end in a character of ".lz4", a name that already carries the
	// suffix, a space, upper case, one letter, non-ASCII
	fname := []string{"f.dat", "shell", "f.dat", "quiz", "track4", "f.dat", "dot.", "archive.lz4", "with space.txt", "UPPER.LZ4", "x", "f.dat", "\u00fcn\u00ef.bin", "l", "4z.l4z"}[(k/3)%15]
	dir, err := os.MkdirTemp(".", fmt.Sprintf("c20-%d-", i))
	if err != nil {
		fatal("mkdir: %v", err)
	}
	defer os.RemoveAll(dir)
	det := func() map[string]interface{} {
		return map[string]interface{}{"flags": strings.Join(fl.args(), " "), "file_len": len(data), "mode": fmt.Sprintf("%o", mode), "umask": umask, "stdio": useStdio, "file_name": fname}
	}
	// what the library Writer emits for the same data and the options the flags announce
	lvl := lz4.Fast
	if fl.level > 0 {
		lvl = allLevels[fl.level]
	}
	libCfg := wcfg{bs: lz4.BlockSize(bs), bc: fl.bc, cc: !fl.sc, level: lvl, conc: 1}
	// lz4c feeds the Writer through io.Copy, which ends in ReadFrom or Write depending on the
	// source; the two differ at most by a final empty block, so both are acceptable references.
	var want, want2 bytes.Buffer
	{
		w := lz4.NewWriter(&want)
		w.Apply(libCfg.opts()...)
		w.ReadFrom(bytes.NewReader(data))
		w.Close()
		w2 := lz4.NewWriter(&want2)
		w2.Apply(libCfg.opts()...)
		w2.Write(data)
		w2.Close()
	}
	c.Count("lz4c_cases", 1)
	var z []byte
	if useStdio {
		out, se, code, err := c20Run(dir, umask, data, append([]string{"compress"}, fl.args()...)...)
		if err != nil || code != 0 {
			c.Violation("compress-failed/stdio", fmt.Sprintf("lz4c compress %v < file: exit %d, err %v, stderr %q", fl.args(), code, err, head(se, 200)), det())
			return
		}
		z = out
	} else {
		fn := filepath.Join(dir, fname)
		if err := os.WriteFile(fn, data, mode); err != nil {
			fatal("write: %v", err)
		}
		os.Chmod(fn, mode)
		preexisting := k%5 == 2
		if preexisting {
			// an older, longer output file is in the way (re-running the tool on the same file)
			os.WriteFile(fn+".lz4", bytes.Repeat([]byte("stale output "), len(data)/8+200), mode)
		}
		out, se, code, err := c20Run(dir, umask, nil, append(append([]string{"compress"}, fl.args()...), fname)...)
		zb, rerr := os.ReadFile(fn + ".lz4")
		if err != nil || code != 0 || rerr != nil {
			c.Violation("compress-failed/file", fmt.Sprintf("lz4c compress %v %q: exit %d, err %v, .lz4 readable: %v, stdout %q stderr %q", fl.args(), fname, code, err, rerr == nil, head(out, 200), head(se, 200)), det())
			return
		}
		z = zb
		if st, err := os.Stat(fn + ".lz4"); err == nil && st.Mode().Perm() != mode.Perm() {
			// observation only: the property speaks of the restored file (checked below)
			c.Count("compressed_file_mode_differs_from_original", 1)
		}
	}
	// 1. well-formed frame in the sense of C09, reflecting the flags as the usage text states them
	pf, perr := ref.ParseFrame(z, ref.ParseOpts{EnforceBlockMax: true})
	if perr != nil {
		c.Violation("output-not-a-valid-frame", fmt.Sprintf("lz4c compress %v: %v", fl.args(), perr), det())
		return
	}
	for _, b := range ref.CheckConformance(pf, fl.expect(), data, len(z)) {
		key := "flag-effect/" + b[0]
		switch b[0] {
		case "content-checksum-flag":
			key = "flag-effect/-sc-stream-checksum-polarity"
		case "block-checksum-flag":
			key = "flag-effect/-bc"
		case "block-size-code":
			key = "flag-effect/-size"
		}
		c.Violation(key, fmt.Sprintf("lz4c compress %v: %s", fl.args(), b[1]), det())
	}
	// 1b. where the reference implementation's lz4 command is installed it must decode the file to the input
	if len(z) <= 20<<20 {
		if refCLI() == "" {
			c.Count("reference_cli_unavailable", 1)
		} else {
			out, msg, err := refCLIDecode(z)
			c.Count("files_decoded_by_the_reference_cli", 1)
			if err != nil {
				c.Violation("reference-cli-rejects", fmt.Sprintf("lz4c compress %v: the reference implementation's lz4 command rejects the file: %v %s", fl.args(), err, msg), det())
			} else if !bytes.Equal(out, data) {
				c.Violation("reference-cli-decodes-differently", fmt.Sprintf("lz4c compress %v: the reference implementation's lz4 command decodes the file to %d bytes that differ from the %d input bytes", fl.args(), len(out), len(data)), det())
			} else {
				c.Count("reference_cli_agrees", 1)
			}
		}
	}
	// 2. -l N: byte-identical to the library Writer at that level (deterministic by C14)
	if pf.ContentChecksum == !fl.sc && !bytes.Equal(z, want.Bytes()) && !bytes.Equal(z, want2.Bytes()) {
		key := "output-differs-from-library-writer"
		if fl.level > 0 {
			// does it equal the Fast output instead?
			var fast bytes.Buffer
			cfgF := libCfg
			cfgF.level = lz4.Fast
			w := lz4.NewWriter(&fast)
			w.Apply(cfgF.opts()...)
			w.ReadFrom(bytes.NewReader(data))
			w.Close()
			if bytes.Equal(z, fast.Bytes()) {
				key = "flag-effect/-l-level-ignored"
			}
		}
		c.Violation(key, fmt.Sprintf("lz4c compress %v emitted %d bytes; the library Writer with the announced options emits %d different bytes", fl.args(), len(z), want.Len()), det())
	}
	// 3. uncompress restores bytes and permission bits
	if useStdio {
		out, se, code, err := c20Run(dir, umask, z, "uncompress")
		if err != nil || code != 0 || !bytes.Equal(out, data) {
			c.Violation("roundtrip-failed/stdio", fmt.Sprintf("lz4c uncompress < out.lz4: exit %d err %v, %d bytes (want %d), stderr %q", code, err, len(out), len(data), head(se, 200)), det())
		}
	} else {
		fn := filepath.Join(dir, fname)
		os.Remove(fn)
		if k%5 == 3 {
			// the original (or an older, longer version of it) is still there when uncompressing
			pm := mode
			if k%10 == 8 {
				pm = 0o600 // ... with other permission bits than the original had
				if mode == 0o600 {
					pm = 0o644
				}
			}
			os.WriteFile(fn, bytes.Repeat([]byte("older version "), len(data)/8+200), pm)
			os.Chmod(fn, pm)
			c.Count("preexisting_output_cases", 1)
		}
		out, se, code, err := c20Run(dir, umask, nil, "uncompress", fname+".lz4")
		got, rerr := os.ReadFile(fn)
		if err != nil || code != 0 || rerr != nil || !bytes.Equal(got, data) {
			c.Violation("roundtrip-failed/file", fmt.Sprintf("lz4c uncompress %q: exit %d err %v, restored %d bytes under the original name (want %d), stdout %q stderr %q", fname+".lz4", code, err, len(got), len(data), head(out, 200), head(se, 200)), det())
		} else if st, err := os.Stat(fn); err == nil && st.Mode().Perm() != mode.Perm() {
			c.Violation("mode-bits/restored-file", fmt.Sprintf("original mode %o, restored file has %o (umask %s)", mode.Perm(), st.Mode().Perm(), umask), det())
		}
	}
	// 4. several files in one invocation
	if !useStdio && k%6 == 0 {
		a, b := filepath.Join(dir, "a.bin"), filepath.Join(dir, "b.bin")
		da, db := gen.Text(g, c.Repo, 5000), prng.New(uint64(i)).Bytes(3000)
		os.WriteFile(a, da, 0o644)
		os.WriteFile(b, db, 0o644)
		out, se, code, err := c20Run(dir, umask, nil, append(append([]string{"compress"}, fl.args()...), "a.bin", "b.bin")...)
		ok := err == nil && code == 0
		for _, x := range []struct {
			f string
			d []byte
		}{{a, da}, {b, db}} {
			zb, rerr := os.ReadFile(x.f + ".lz4")
			if rerr != nil {
				ok = false
				continue
			}
			p2, e2 := ref.ParseFrame(zb, ref.ParseOpts{EnforceBlockMax: true})
			if e2 != nil || !bytes.Equal(p2.Content, x.d) || p2.Consumed != len(zb) {
				ok = false
			}
		}
		c.Count("multi_file_invocations", 1)
		if ok {
			// and back, again in one invocation (second file shorter than the first)
			os.Remove(a)
			os.Remove(b)
			out2, se2, code2, err2 := c20Run(dir, umask, nil, "uncompress", "a.bin.lz4", "b.bin.lz4")
			ga, ea := os.ReadFile(a)
			gb, eb := os.ReadFile(b)
			if err2 != nil || code2 != 0 || ea != nil || eb != nil || !bytes.Equal(ga, da) || !bytes.Equal(gb, db) {
				c.Violation("multi-file-uncompress-failed", fmt.Sprintf("lz4c uncompress a.bin.lz4 b.bin.lz4 did not restore both files: exit %d err %v, a: %d/%d bytes, b: %d/%d bytes, stdout %q stderr %q", code2, err2, len(ga), len(da), len(gb), len(db), head(out2, 300), head(se2, 200)), det())
			}
			// files made with different settings in one uncompress invocation, in both orders: a third file
			// with the other extreme of the block size and the other block-checksum setting
			fo := fl
			fo.bc = !fl.bc
			if fl.size == "64K" || fl.size == "256K" {
				fo.size = "4M"
			} else {
				fo.size = "64K"
			}
			cf := filepath.Join(dir, "c.bin")
			dc := gen.Text(g, c.Repo, 150000)
			os.WriteFile(cf, dc, 0o644)
			if _, _, code3, err3 := c20Run(dir, umask, nil, append(append([]string{"compress"}, fo.args()...), "c.bin")...); err3 == nil && code3 == 0 {
				for order := 0; order < 2; order++ {
					os.Remove(a)
					os.Remove(cf)
					names := []string{"a.bin.lz4", "c.bin.lz4"}
					if order == 1 {
						names = []string{"c.bin.lz4", "a.bin.lz4"}
					}
					out4, se4, code4, err4 := c20Run(dir, umask, nil, append([]string{"uncompress"}, names...)...)
					ga, ea := os.ReadFile(a)
					gc, ec := os.ReadFile(cf)
					c.Count("multi_file_invocations_mixed_settings", 1)
					if err4 != nil || code4 != 0 || ea != nil || ec != nil || !bytes.Equal(ga, da) || !bytes.Equal(gc, dc) {
						c.Violation("multi-file-uncompress-failed/mixed-settings", fmt.Sprintf("lz4c uncompress %v (made with %v and %v) did not restore both files: exit %d err %v, a: %d/%d bytes, c: %d/%d bytes, stdout %q stderr %q", names, fl.args(), fo.args(), code4, err4, len(ga), len(da), len(gc), len(dc), head(out4, 300), head(se4, 200)), det())
					}
				}
			}
		}
		if !ok {
			c.Violation("multi-file-compress-failed", fmt.Sprintf("lz4c compress %v a.bin b.bin did not produce two valid .lz4 files: exit %d err %v stdout %q stderr %q", fl.args(), code, err, head(out, 300), head(se, 200)), det())
		}
	}
	st := "file"
	if useStdio {
		st = "stdio"
	}
	c.Cell(fmt.Sprintf("size=%s/bc=%v/sc=%v/l=%d/c=%d/len=%s/mode=%o/umask=%s/%s", fl.size, fl.bc, fl.sc, fl.level, fl.conc, sizeBucketK(len(data)), mode, umask, st))
	if i%37 == 0 {
		c.Sample(map[string]interface{}{"flags": strings.Join(fl.args(), " "), "file_len": len(data), "mode": fmt.Sprintf("%o", mode), "umask": umask, "stdio": useStdio, "lz4_len": len(z)})
	}
}
