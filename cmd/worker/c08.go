package main

import (
	"bytes"
	"encoding/binary"
	"fmt"
	"io"
	"runtime"
	"strconv"
	"strings"
	"sync/atomic"
	"time"

	lz4 "github.com/pierrec/lz4/v4"

	"verif/internal/gen"
	"verif/internal/mon"
	"verif/internal/prng"
	"verif/internal/ref"
)

// C08 – the concurrent pipelines are race-free, ordered, deadlock-free and
// leak-free.  Runs in the -race build with the verif hooks enabled: pool
// quarantine/poison, scheduling perturbation at the yield sites, event log.

var hooksInstalled bool

func installHooks() {
	if !hooksInstalled {
		lz4.VerifSetHooks(mon.Yield, mon.PoolGet, mon.PoolPut, mon.Event)
		hooksInstalled = true
	}
}

// ---- goroutine census --------------------------------------------------------

// libGoroutines returns the ids of goroutines that are inside the library,
// split into parked (cannot run by themselves) and active ones.
func libGoroutines() (parked map[int]string, active int) {
	buf := make([]byte, 1<<20)
	for {
		n := runtime.Stack(buf, true)
		if n < len(buf) {
			buf = buf[:n]
			break
		}
		buf = make([]byte, 2*len(buf))
	}
	parked = map[int]string{}
	for _, blk := range strings.Split(string(buf), "\n\n") {
		m := reGo.FindStringSubmatch(blk)
		if m == nil || !strings.Contains(blk, "pierrec/lz4") {
			continue
		}
		if strings.Contains(blk, "main.libGoroutines") {
			continue // the harness goroutine itself, calling from a library callback
		}
		id, _ := strconv.Atoi(m[1])
		st := m[2]
		if k := strings.Index(st, ","); k >= 0 {
			st = st[:k]
		}
		switch st {
		case "chan send", "chan receive", "select", "sync.Cond.Wait", "sync.Mutex.Lock", "semacquire", "chan send (nil chan)", "chan receive (nil chan)", "select (no cases)", "sync.WaitGroup.Wait":
			parked[id] = blk
		default:
			active++
		}
	}
	return
}

// leakCheck waits (bounded number of yields, no wall-clock verdict) until no
// new library goroutine remains.  leaked: goroutines that are parked while no
// library goroutine is active (their state cannot change any more).
func leakCheck(before map[int]string) (leaked []string, inconclusive bool) {
	for it := 0; it < 4000; it++ {
		parked, active := libGoroutines()
		fresh := 0
		for id := range parked {
			if _, old := before[id]; !old {
				fresh++
			}
		}
		if fresh == 0 && active == 0 {
			return nil, false
		}
		if active == 0 && it >= 3 {
			// confirm on a second snapshot after yielding
			for k := 0; k < 50; k++ {
				runtime.Gosched()
			}
			time.Sleep(200 * time.Microsecond)
			p2, a2 := libGoroutines()
			if a2 == 0 {
				same := true
				for id := range parked {
					if _, ok := p2[id]; !ok {
						same = false
					}
				}
				// a leak is a stable state: the same goroutines must still be parked, and nothing active,
				// on three more snapshots with the scheduler running in between
				for k := 0; k < 3 && same; k++ {
					for j := 0; j < 20; j++ {
						runtime.Gosched()
					}
					time.Sleep(3 * time.Millisecond)
					p3, a3 := libGoroutines()
					if a3 != 0 {
						same = false
					}
					for id := range p2 {
						if _, ok := p3[id]; !ok {
							same = false
						}
					}
				}
				if same {
					for id, blk := range p2 {
						if _, old := before[id]; !old && len(leaked) < 4 {
							leaked = append(leaked, blk)
						}
					}
					if len(leaked) > 0 {
						return leaked, false
					}
					return nil, false
				}
			}
		}
		if it < 50 {
			runtime.Gosched()
		} else {
			time.Sleep(50 * time.Microsecond)
		}
	}
	return nil, true
}

// ---- data ----------------------------------------------------------------------

// distinctBlocks returns nblocks*bs + tail bytes where every block is
// different and compressible (so that a reordering is visible in the bytes).
func distinctBlocks(g *prng.Rng, nblocks, bs, tail int) []byte {
	b := make([]byte, 0, nblocks*bs+tail)
	for i := 0; i <= nblocks; i++ {
		n := bs
		if i == nblocks {
			n = tail
		}
		seg := make([]byte, n)
		word := g.Bytes(16)
		for j := range seg {
			seg[j] = word[j%16] ^ byte(j>>8) ^ byte(i)
		}
		// some incompressible stretch so that stored blocks occur too
		if i%3 == 1 && n > 2000 {
			copy(seg[100:], g.Bytes(1500))
		}
		b = append(b, seg...)
	}
	return b
}

// ---- writer scripts -------------------------------------------------------------

const (
	w8Partition = iota
	w8Flush
	w8ReadFrom
	w8Reuse        // Close -> Reset -> second frame
	w8ResetNoClose // Reset without Close, then a complete frame
	w8SinkFails
	w8SlowSink
	w8ReuseOtherConc   // Close -> Reset -> Apply(another concurrency level) -> second frame
	w8ReuseNewCallback // Close -> Reset -> Apply(another OnBlockDone callback, another level) -> second frame
	numW8Scripts
)

var w8Names = []string{"partition", "flush", "readfrom", "close-reset-reuse", "reset-without-close", "sink-fails", "slow-sink", "reuse-with-other-concurrency", "reuse-with-new-callback"}

type w8Op struct {
	kind  int // 0 write, 1 flush, 2 close, 3 reset(new sink), 4 readfrom, 5 apply(concurrency = frame field), 6 apply(new callback, level)
	data  []byte
	frame int
}

func c08Perturb(c *Ctx) int64 {
	if c.Tier == "thorough" {
		return 120
	}
	return 6
}

var c08Concs = []int{2, 3, 4, 16}

func c08Counts(c *Ctx) (nW, nR int64) {
	nW = int64(numW8Scripts*len(c08Concs)*7) * c08Perturb(c)
	nR = int64(3*3*numR8*2) * c08Perturb(c)
	return
}

func init() {
	register("C08", &PropDef{
		Setup: func(c *Ctx) { installHooks(); gen.LoadTexts(c.Repo) },
		Total: func(c *Ctx) int64 { a, b := c08Counts(c); return a + b },
		Run: func(c *Ctx, i int64) {
			nW, _ := c08Counts(c)
			if i < nW {
				c08Writer(c, i)
			} else {
				c08Reader(c, i-nW)
			}
		},
	})
}

func perturbFor(c *Ctx, i int64, p int) (mode int, seed uint64, slow int, name string) {
	seed = prng.Derive(c.Seed, uint64(i), uint64(p)).Next()
	switch p % 3 {
	case 0:
		return mon.PerturbJitter, seed, 0, "jitter"
	case 1:
		s := int(seed>>8) % mon.NumSites
		return mon.PerturbSlow, seed, s, fmt.Sprintf("slow-site-%d", s)
	}
	return mon.PerturbOff, seed, 0, "none"
}

// runW8 executes a script on a Writer with the given concurrency.
type w8Result struct {
	sinks    []*gen.Sink
	errs     []string
	firstErr error
	blocks   int64
}

func buildW8(g *prng.Rng, script, conc, bcIdx int) (ops []w8Op, nblocks int) {
	bs := 65536
	counts := []int{0, 1, 2, conc - 1, conc, conc + 1, 4 * conc}
	nb := counts[bcIdx%len(counts)]
	if nb > 24 {
		nb = 24
	}
	data := distinctBlocks(g, nb, bs, 1+g.N(3000))
	switch script {
	case w8ReadFrom:
		return []w8Op{{kind: 4, data: data}, {kind: 2}}, nb
	case w8Partition, w8SinkFails, w8SlowSink:
		p := 0
		for _, k := range gen.Partition(g, len(data), 1+g.N(2), bs) {
			ops = append(ops, w8Op{kind: 0, data: data[p : p+k]})
			p += k
		}
		return append(ops, w8Op{kind: 2}), nb
	case w8Flush:
		p := 0
		for _, k := range gen.Partition(g, len(data), 1, bs) {
			ops = append(ops, w8Op{kind: 0, data: data[p : p+k]})
			p += k
			if g.N(3) == 0 {
				ops = append(ops, w8Op{kind: 1})
			}
		}
		return append(ops, w8Op{kind: 2}), nb
	case w8ReuseOtherConc:
		h := len(data) / 2
		other := []int{2, 3, 5, 8, 1}[(conc+nb)%5]
		if other == conc {
			other = conc + 1
		}
		return []w8Op{{kind: 0, data: data[:h]}, {kind: 2}, {kind: 3}, {kind: 5, frame: other}, {kind: 0, data: data[h:], frame: 1}, {kind: 2, frame: 1}}, nb
	case w8ReuseNewCallback:
		// what a pooled Writer's next user does: Close, Reset, then options of its own; nothing of the
		// first frame may still be looking at the Writer when Close has returned
		h := len(data) / 2
		return []w8Op{{kind: 0, data: data[:h]}, {kind: 2}, {kind: 3}, {kind: 6}, {kind: 0, data: data[h:], frame: 1}, {kind: 2, frame: 1}}, nb
	case w8Reuse:
		h := len(data) / 2
		return []w8Op{{kind: 0, data: data[:h]}, {kind: 2}, {kind: 3}, {kind: 0, data: data[h:], frame: 1}, {kind: 2, frame: 1}}, nb
	default: // reset without close
		h := len(data) / 2
		return []w8Op{{kind: 0, data: data[:h]}, {kind: 3}, {kind: 0, data: data[h:], frame: 1}, {kind: 2, frame: 1}}, nb
	}
}

func runW8(c *Ctx, ops []w8Op, conc int, cc, bc bool, extra []lz4.Option, mkSink func(k int) *gen.Sink, blocks *int64) (res w8Result, wr watchResult) {
	sink := mkSink(0)
	res.sinks = []*gen.Sink{sink}
	wr = c.Watch("concurrent-writer", func() {
		w := lz4.NewWriter(sink)
		if err := w.Apply(lz4.BlockSizeOption(lz4.Block64Kb), lz4.ConcurrencyOption(conc), lz4.ChecksumOption(cc), lz4.BlockChecksumOption(bc),
			lz4.OnBlockDoneOption(func(n int) { atomic.AddInt64(blocks, 1) })); err != nil {
			res.firstErr = err
			return
		}
		if err := w.Apply(extra...); err != nil {
			res.firstErr = err
			return
		}
		note := func(what string, err error) {
			if err != nil {
				res.errs = append(res.errs, what+": "+err.Error())
				if res.firstErr == nil {
					res.firstErr = err
				}
			}
		}
		for _, op := range ops {
			switch op.kind {
			case 0:
				_, err := writeRecycled(w, op.data)
				note("Write", err)
			case 1:
				note("Flush", w.Flush())
			case 2:
				note("Close", w.Close())
			case 3:
				s2 := mkSink(len(res.sinks))
				res.sinks = append(res.sinks, s2)
				w.Reset(s2)
			case 4:
				_, err := w.ReadFrom(bytes.NewReader(op.data))
				note("ReadFrom", err)
			case 5:
				if conc != 1 { // the sequential reference stays sequential
					note("Apply", w.Apply(lz4.ConcurrencyOption(op.frame)))
				}
			case 6:
				note("Apply", w.Apply(lz4.OnBlockDoneOption(func(n int) { atomic.AddInt64(blocks, 1) }), lz4.CompressionLevelOption(lz4.Fast)))
			}
		}
	})
	return
}

func c08Writer(c *Ctx, i int64) {
	per := c08Perturb(c)
	p := int(i % per)
	k := int(i / per)
	script := k % numW8Scripts
	conc := c08Concs[(k/numW8Scripts)%len(c08Concs)]
	bcIdx := k / (numW8Scripts * len(c08Concs))
	g := prng.Derive(c.Seed, prng.Hash("C08w"), uint64(k))
	ops, nb := buildW8(g, script, conc, bcIdx)
	// reference: the same calls on a sequential Writer, hooks quiet
	mon.SetPerturbation(mon.PerturbOff, 0, 0)
	var refBlocks int64
	// content / block checksum vary with the case (a buffer released early is only visible when nothing re-reads it)
	cc, bc := k%2 == 0, (k/5)%3 == 0
	// further options that change what the frame state looks like between frames: legacy frames (no
	// descriptor at all) and a content size for which the header checksum byte is 0x00
	var extra []lz4.Option
	xname := "plain"
	switch (k / 3) % 6 {
	case 1:
		extra, xname = []lz4.Option{lz4.LegacyOption(true)}, "legacy"
	case 3:
		extra, xname = []lz4.Option{lz4.SizeOption(hcZeroSize(lz4.Block64Kb, bc, cc))}, "size-with-zero-header-checksum"
	case 5:
		extra, xname = []lz4.Option{lz4.SizeOption(31337)}, "size"
	}
	refRes, rw := runW8(c, ops, 1, cc, bc, extra, func(int) *gen.Sink { return &gen.Sink{} }, &refBlocks)
	if rw.Panicked || rw.Deadlocked || refRes.firstErr != nil {
		c.Violation("reference-run-failed", fmt.Sprintf("sequential reference run of script %s failed: %v", w8Names[script], refRes.firstErr), nil)
		return
	}
	mode, seed, slow, pname := perturbFor(c, i, p)
	before, _ := libGoroutines()
	mon.PoolStart(seed&1 == 0)
	mon.EventsStart()
	mon.SetPerturbation(mode, seed, slow)
	failAt := 0
	if script == w8SinkFails {
		total := refRes.sinks[0].Calls
		failAt = 1 + int(seed>>16)%(total+1)
	}
	mkSink := func(k int) *gen.Sink {
		s := &gen.Sink{Budget: 100000}
		if script == w8SinkFails && k == 0 {
			s.FailFrom = failAt
		}
		if script == w8SlowSink {
			s.OnWrite = func(call int) {
				if call%3 == 0 {
					time.Sleep(time.Duration(20+call%7*30) * time.Microsecond)
				} else {
					runtime.Gosched()
				}
			}
		}
		return s
	}
	var blocks int64
	c.Tag(fmt.Sprintf("writer/%s/conc%d", w8Names[script], conc))
	res, wr := runW8(c, ops, conc, cc, bc, extra, mkSink, &blocks)
	mon.SetPerturbation(mon.PerturbOff, 0, 0)
	events := mon.EventsStop()
	det := func() map[string]interface{} {
		return map[string]interface{}{"script": w8Names[script], "conc": conc, "blocks": nb, "perturbation": pname, "seed": seed, "errors": res.errs, "sink_fail_at": failAt, "content_checksum": cc, "block_checksum": bc, "other_options": xname}
	}
	c.Count("pipeline_runs", 1)
	c.Count("hook_events", int64(len(events)))
	if wr.Deadlocked {
		mon.PoolStop()
		c.Violation("deadlock/writer/"+w8Names[script], fmt.Sprintf("concurrent Writer (conc %d, script %s, %s) never returns: every library goroutine is parked", conc, w8Names[script], pname), map[string]interface{}{"script": w8Names[script], "conc": conc, "goroutines": wr.Dump})
		return
	}
	if wr.Panicked {
		mon.PoolStop()
		return
	}
	// leak check: Close has returned (with or without error)
	leaked, inconcl := leakCheck(before)
	rep := mon.PoolStop()
	if inconcl {
		c.Count("leak_check_inconclusive", 1)
	}
	if len(leaked) > 0 {
		key := "goroutine-leak/writer/" + w8Names[script]
		if script == w8SinkFails && failAt == 1 {
			key = "goroutine-leak/writer/close-after-header-write-failed"
		}
		d := det()
		d["goroutines"] = leaked
		c.Violation(key, fmt.Sprintf("%d library goroutine(s) remain parked after Close returned (conc %d, script %s, %s)", len(leaked), conc, w8Names[script], pname), d)
	}
	c.Count("goroutine_censuses", 1)
	// pool monitor
	for _, m := range rep.WriteAfterFree {
		c.Violation("write-after-release/writer", m+fmt.Sprintf(" (conc %d, script %s, %s)", conc, w8Names[script], pname), det())
	}
	for _, m := range rep.DoubleRelease {
		c.Violation("double-release/writer", m+fmt.Sprintf(" (conc %d, script %s, %s)", conc, w8Names[script], pname), det())
	}
	c.Count("pool_gets", rep.Gets)
	c.Count("pool_puts", rep.Puts)
	c.Count("poison_checks", rep.PoisonChecks)
	c.Count("quarantined_buffers_reused", rep.ReusedQuarantine)
	// bytes: identical to the sequential Writer's (prefix if the sink failed)
	for si, s := range res.sinks {
		want := refRes.sinks[si].Buf
		if script == w8SinkFails && si == 0 {
			if !bytes.HasPrefix(want, s.Buf) {
				c.Violation("sink-not-a-prefix/writer", fmt.Sprintf("after the sink failed at call %d the %d bytes it holds are not a prefix of the sequential output (conc %d, %s)", failAt, len(s.Buf), conc, pname), det())
			}
			if res.firstErr == nil && len(s.Errs) > 0 {
				c.Violation("sink-error-lost/writer", fmt.Sprintf("the sink failed at call %d but no call reported it (conc %d, %s)", failAt, conc, pname), det())
			}
			continue
		}
		if script == w8ResetNoClose && si == 0 {
			// abandoned frame: whatever reached the sink must be a prefix of what a full frame would be
			continue
		}
		if !bytes.Equal(s.Buf, want) {
			key := "output-differs-from-sequential/" + w8Names[script]
			if bytes.Contains(s.Buf, bytes.Repeat([]byte{0xDB}, 64)) {
				key = "read-after-release/poison-in-output/" + w8Names[script]
			}
			c.Violation(key, fmt.Sprintf("concurrent Writer (conc %d, script %s, %s) emitted %d bytes that differ from the sequential Writer's %d bytes for the same calls", conc, w8Names[script], pname, len(s.Buf), len(want)), det())
		}
	}
	if script != w8SinkFails && res.firstErr != nil {
		c.Violation("writer-call-failed/"+w8Names[script], fmt.Sprintf("a call failed on a healthy sink: %v", res.firstErr), det())
	}
	if script != w8SinkFails && script != w8ResetNoClose && blocks != refBlocks {
		c.Violation("on-block-done-count", fmt.Sprintf("OnBlockDone was called %d times, %d for the sequential Writer (script %s, conc %d)", blocks, refBlocks, w8Names[script], conc), det())
	}
	// event log: FIFO and exactly-once
	c08CheckEvents(c, events, script, conc, pname, det)
	c.Cell(fmt.Sprintf("writer/%s/conc%d/blocks%d/cc%d/bc%d/%s/%s", w8Names[script], conc, nb, b2i(cc), b2i(bc), xname, pname[:4]))
	c.Cell("interleaving/" + strconv.FormatUint(hashEvents(events), 16))
	if i%97 == 0 {
		c.Sample(map[string]interface{}{"object": "Writer", "script": w8Names[script], "conc": conc, "blocks": nb, "perturbation": pname, "events": len(events)})
	}
}

func hashEvents(evs []mon.Ev) uint64 {
	h := uint64(1469598103934665603)
	for _, e := range evs {
		h ^= uint64(e.Kind)<<32 | uint64(uint32(e.ID))
		h *= 1099511628211
	}
	return h
}

// event kinds (mirror of verifhook's constants)
const (
	evWSubmit = iota
	evWDequeued
	evWWritten
	evWSentinel
	evRRead
	evRDecoded
	evRCollected
)

func c08CheckEvents(c *Ctx, evs []mon.Ev, script, conc int, pname string, det func() map[string]interface{}) {
	var submit, dequeued, written []int
	sentinel := map[int]bool{}
	for _, e := range evs {
		switch e.Kind {
		case evWSubmit:
			submit = append(submit, e.ID)
		case evWSentinel:
			sentinel[e.ID] = true
		case evWDequeued:
			if !sentinel[e.ID] {
				dequeued = append(dequeued, e.ID)
			}
		case evWWritten:
			written = append(written, e.ID)
		}
	}
	c.Count("blocks_submitted", int64(len(submit)))
	eq := func(a, b []int) bool {
		if len(a) != len(b) {
			return false
		}
		for i := range a {
			if a[i] != b[i] {
				return false
			}
		}
		return true
	}
	if !eq(submit, dequeued) {
		c.Violation("ordering/dequeue-order-differs-from-submit-order", fmt.Sprintf("blocks were submitted in order %v but handled by the ordering goroutine in order %v (script %s, conc %d, %s)", head3(submit), head3(dequeued), w8Names[script], conc, pname), det())
	}
	if !eq(submit, written) {
		c.Violation("ordering/written-not-exactly-once-in-order", fmt.Sprintf("%d blocks submitted, %d completed by the ordering goroutine; orders %v vs %v (script %s, conc %d, %s)", len(submit), len(written), head3(submit), head3(written), w8Names[script], conc, pname), det())
	}
}

func head3(a []int) []int {
	if len(a) > 12 {
		return a[:12]
	}
	return a
}

// ---- reader --------------------------------------------------------------------

const (
	r8Clean = iota
	r8CorruptBlock
	r8SourceFails
	r8EmptyThenCorrupt      // an empty stored block early in the frame, a corrupted block later
	r8ResetMidstream        // the Reader is Reset to a second frame while the pipeline of the first is still running
	r8ResetAfterSinkFailure // WriteTo of a first frame fails in the destination mid-stream, then Reset to a second frame
	numR8
)

var r8Names = []string{"clean", "corrupt-block", "source-fails", "empty-block-then-corrupt-block", "reset-midstream", "reset-after-writeto-sink-failure"}

func c08Reader(c *Ctx, i int64) {
	per := c08Perturb(c)
	p := int(i % per)
	k := int(i / per)
	conc := []int{2, 4, 16}[k%3]
	mode := []int{rdSmall, rdBlock, rdWriteTo}[(k/3)%3]
	cond := (k / 9) % numR8
	variant := k / (9 * numR8)
	g := prng.Derive(c.Seed, prng.Hash("C08r"), uint64(k))
	nb := []int{3, 9}[variant%2]
	data := distinctBlocks(g, nb, 65536, 1+g.N(3000))
	frame, _, err := writeScript(wcfg{bs: lz4.Block64Kb, bc: true, cc: true, conc: 1, level: lz4.Fast}, []wstep{{data: data}})
	if err != nil {
		c.Violation("reference-run-failed", "cannot build the frame: "+err.Error(), nil)
		return
	}
	pf, perr := ref.ParseFrame(frame, ref.ParseOpts{})
	if perr != nil {
		c.Count("frames_rejected_by_reference", 1)
		return
	}
	in := frame
	failAt := 0
	corruptAt := -1
	switch cond {
	case r8CorruptBlock:
		b := pf.Blocks[g.N(len(pf.Blocks))]
		in = append([]byte(nil), frame...)
		corruptAt = b.DataOff + g.N(b.Size)
		in[corruptAt] ^= 1 << uint(g.N(8))
	case r8SourceFails:
		failAt = 2 + g.N(3*len(pf.Blocks))
	case r8EmptyThenCorrupt:
		// header | empty stored block (+ its checksum) | original blocks, one of the last ones corrupted
		first := pf.Blocks[0].HdrOff
		in = append([]byte(nil), frame[:first]...)
		in = append(in, 0, 0, 0, 0x80)
		in = binary.LittleEndian.AppendUint32(in, ref.XXH32(nil))
		in = append(in, frame[first:]...)
		b := pf.Blocks[len(pf.Blocks)-1-g.N(2)]
		corruptAt = 8 + b.DataOff + g.N(b.Size)
		in[corruptAt] ^= 1 << uint(g.N(8))
	}
	// reset-midstream: a first frame (other content) is read in part, then the Reader is Reset to `in`
	var first []byte
	if cond == r8ResetMidstream || cond == r8ResetAfterSinkFailure {
		other := distinctBlocks(g, 4+g.N(6), 65536, 1+g.N(3000))
		first, _, err = writeScript(wcfg{bs: lz4.Block64Kb, bc: g.Bool(), cc: true, conc: 1, level: lz4.Fast}, []wstep{{data: other}})
		if err != nil {
			c.Violation("reference-run-failed", "cannot build the frame: "+err.Error(), nil)
			return
		}
	}
	partial := g.N(3) // how much of the first frame is read before Reset: nothing but the header / one small read / one block and a bit
	mode2, seed, slow, pname := perturbFor(c, i+1_000_000, p)
	before, _ := libGoroutines()
	mon.PoolStart(seed&1 == 0)
	mon.EventsStart()
	mon.SetPerturbation(mode2, seed, slow)
	src := &gen.Source{Data: in, FailAt: failAt, Budget: 100000, MaxChunk: 70000}
	var out []byte
	var rerr error
	var blocks int64
	c.Tag(fmt.Sprintf("reader/%s/conc%d", r8Names[cond], conc))
	wr := c.Watch("concurrent-reader", func() {
		r := lz4.NewReader(src)
		if cond == r8ResetMidstream || cond == r8ResetAfterSinkFailure {
			r = lz4.NewReader(&gen.Source{Data: first, Budget: 100000, MaxChunk: 70000})
		}
		if err := r.Apply(lz4.ConcurrencyOption(conc), lz4.OnBlockDoneOption(func(n int) { atomic.AddInt64(&blocks, 1) })); err != nil {
			rerr = err
			return
		}
		if cond == r8ResetAfterSinkFailure {
			// the destination of WriteTo fails at its first / second / third write: the Reader goes into its error
			// state while its pipeline still has blocks in flight
			bad := &gen.Sink{FailFrom: 1 + partial, Budget: 1000}
			if _, err := r.WriteTo(bad); err == nil {
				rerr = fmt.Errorf("WriteTo reported no error although its destination failed at write %d", 1+partial)
				return
			}
			r.Reset(src)
		}
		if cond == r8ResetMidstream {
			pb := make([]byte, []int{1, 997, 65536 + 4000}[partial])
			if _, err := io.ReadFull(r, pb); err != nil {
				rerr = fmt.Errorf("partial read of the first frame: %w", err)
				return
			}
			r.Reset(src)
		}
		if mode == rdWriteTo {
			var buf bytes.Buffer
			_, rerr = r.WriteTo(&buf)
			out = buf.Bytes()
			return
		}
		sz := 997
		if mode == rdBlock {
			sz = 65536 + 11
		}
		buf := make([]byte, sz)
		zero := 0
		for {
			n, err := r.Read(buf)
			out = append(out, buf[:n]...)
			if err == io.EOF {
				return
			}
			if err != nil {
				rerr = err
				return
			}
			if n == 0 {
				zero++
				if zero > 1000 {
					rerr = errNoProgress
					return
				}
			} else {
				zero = 0
			}
		}
	})
	mon.SetPerturbation(mon.PerturbOff, 0, 0)
	events := mon.EventsStop()
	det := func() map[string]interface{} {
		return map[string]interface{}{"condition": r8Names[cond], "conc": conc, "read_mode": rdNames[mode], "blocks": len(pf.Blocks), "perturbation": pname, "seed": seed, "err": fmt.Sprint(rerr), "delivered": len(out), "source_fail_at": failAt, "corrupt_at": corruptAt}
	}
	c.Count("pipeline_runs", 1)
	c.Count("hook_events", int64(len(events)))
	if wr.Deadlocked {
		mon.PoolStop()
		c.Violation("deadlock/reader/"+r8Names[cond], fmt.Sprintf("concurrent Reader (conc %d, %s, %s, %s) never returns: every library goroutine is parked", conc, rdNames[mode], r8Names[cond], pname), map[string]interface{}{"goroutines": wr.Dump, "condition": r8Names[cond]})
		return
	}
	if wr.Panicked {
		mon.PoolStop()
		return
	}
	leaked, inconcl := leakCheck(before)
	rep := mon.PoolStop()
	if inconcl {
		c.Count("leak_check_inconclusive", 1)
	}
	c.Count("goroutine_censuses", 1)
	if len(leaked) > 0 {
		d := det()
		d["goroutines"] = leaked
		c.Violation("goroutine-leak/reader/"+r8Names[cond], fmt.Sprintf("%d library goroutine(s) remain parked after the Reader reported %v (conc %d, %s, %s)", len(leaked), rerr, conc, rdNames[mode], pname), d)
	}
	for _, m := range rep.WriteAfterFree {
		c.Violation("write-after-release/reader", m+fmt.Sprintf(" (conc %d, %s, %s, %s)", conc, rdNames[mode], r8Names[cond], pname), det())
	}
	for _, m := range rep.DoubleRelease {
		c.Violation("double-release/reader", m+fmt.Sprintf(" (conc %d, %s, %s, %s)", conc, rdNames[mode], r8Names[cond], pname), det())
	}
	c.Count("pool_gets", rep.Gets)
	c.Count("pool_puts", rep.Puts)
	c.Count("poison_checks", rep.PoisonChecks)
	c.Count("quarantined_buffers_reused", rep.ReusedQuarantine)
	switch cond {
	case r8Clean, r8ResetMidstream, r8ResetAfterSinkFailure:
		if rerr != nil || !bytes.Equal(out, data) {
			key := "reader-output-wrong/" + r8Names[cond]
			if bytes.Contains(out, bytes.Repeat([]byte{0xDB}, 64)) {
				key = "read-after-release/poison-in-output/reader"
			}
			c.Violation(key, fmt.Sprintf("concurrent Reader (conc %d, %s, %s) on a valid frame: err=%v, %d of %d bytes", conc, rdNames[mode], pname, rerr, len(out), len(data)), det())
		}
	case r8CorruptBlock, r8EmptyThenCorrupt:
		if rerr == nil {
			c.Violation("corrupt-block-accepted", fmt.Sprintf("a frame with a flipped payload bit (block checksums on) was read to a clean end (conc %d, %s, %s)", conc, rdNames[mode], pname), det())
		}
		if len(out) > len(data) || !bytes.Equal(out, data[:len(out)]) {
			key := "reader-output-not-a-prefix/corrupt-block"
			if bytes.Contains(out, bytes.Repeat([]byte{0xDB}, 64)) {
				key = "read-after-release/poison-in-output/reader"
			}
			c.Violation(key, fmt.Sprintf("bytes delivered before the decoding error are not a prefix of the content (conc %d, %s, %s)", conc, rdNames[mode], pname), det())
		}
	case r8SourceFails:
		if len(src.Errs) > 0 {
			if rerr == nil {
				c.Violation("source-error-lost/reader", fmt.Sprintf("the source failed at call %d but the concurrent Reader ended cleanly (conc %d, %s, %s)", failAt, conc, rdNames[mode], pname), det())
			} else if !isInjected(rerr, src.Errs) {
				c.Violation("source-error-replaced/reader", fmt.Sprintf("the source failed at call %d but the concurrent Reader returned %v (conc %d, %s, %s)", failAt, rerr, conc, rdNames[mode], pname), det())
			}
		}
		if len(out) > len(data) || !bytes.Equal(out, data[:len(out)]) {
			c.Violation("reader-output-not-a-prefix/source-fails", "bytes delivered before the source error are not a prefix of the content", det())
		}
	}
	// events: collected order == read order (prefix), each decoded once
	var read, collected []int
	for _, e := range events {
		switch e.Kind {
		case evRRead:
			read = append(read, e.ID)
		case evRCollected:
			collected = append(collected, e.ID)
		}
	}
	if cond == r8ResetMidstream || cond == r8ResetAfterSinkFailure {
		// two pipelines log into the same list: their relative order is free; the output comparison decides
	} else if len(collected) > len(read) {
		c.Violation("ordering/reader-collected-more-than-read", fmt.Sprintf("%d blocks collected, %d read", len(collected), len(read)), det())
	} else {
		for j := range collected {
			if collected[j] != read[j] {
				c.Violation("ordering/reader-collect-order-differs-from-read-order", fmt.Sprintf("blocks were read in order %v but forwarded in order %v (conc %d, %s)", head3(read), head3(collected), conc, pname), det())
				break
			}
		}
	}
	c.Cell(fmt.Sprintf("reader/%s/conc%d/%s/blocks%d/%s", r8Names[cond], conc, rdNames[mode], len(pf.Blocks), pname[:4]))
	c.Cell("interleaving/" + strconv.FormatUint(hashEvents(events), 16))
	if i%89 == 0 {
		c.Sample(map[string]interface{}{"object": "Reader", "condition": r8Names[cond], "conc": conc, "read_mode": rdNames[mode], "perturbation": pname, "events": len(events)})
	}
}
