package main

// "Options take effect" for the one option the frame oracles cannot see: the compression level.
// (Block size, checksums, content size and legacy show up in the descriptor and are judged by the
// independent parser; a Writer that drops CompressionLevelOption on the floor still emits valid
// frames that round-trip.)
//
// Oracle, deliberately one-sided: the stored bytes of every block of a frame emitted under level L
// are compared with what the library's own block compressors produce for that block at each of the
// ten levels.  A block that equals the output of the configured level confirms the effect; a block
// that equals the output of ANOTHER level whose output differs from the configured one's shows that
// a different level took effect: violation.  A block that matches no level is only counted (the
// property does not say how a Writer must compress).

import (
	"bytes"
	"fmt"
	"io"

	lz4 "github.com/pierrec/lz4/v4"

	"verif/internal/prng"
	"verif/internal/ref"
)

type levelProbe struct {
	data []byte
	bs   int
	want [][][]byte // [level index][block] stored bytes (nil: stored raw)
}

var theLevelProbe *levelProbe

func getLevelProbe(c *Ctx) *levelProbe {
	if theLevelProbe != nil {
		return theLevelProbe
	}
	p := &levelProbe{bs: 65536}
	// three 64 KiB blocks, each: a 300-byte random string T, then thousands of 5-byte decoys that begin
	// like T (long hash chains for the HC search), T again, random filler.  Measured on the pinned
	// tree: the outputs at Fast, Level1 and Level2..Level9 differ (three distinct outputs; the deeper
	// levels cannot be told apart inside a 64 KiB window, so nothing is claimed about them).
	g := prng.New(20261005)
	for _, decoys := range []int{1500, 6000, 12000} {
		t := g.Bytes(300)
		blk := append(g.Bytes(16), t...)
		for i := 0; i < decoys; i++ {
			blk = append(blk, t[:4]...)
			x := byte(g.N(256))
			if x == t[4] {
				x++
			}
			blk = append(blk, x)
		}
		blk = append(blk, t...)
		blk = append(blk, g.Bytes(p.bs-len(blk))...)
		p.data = append(p.data, blk...)
	}
	for _, lv := range allLevels {
		var blocks [][]byte
		for off := 0; off < len(p.data); off += p.bs {
			end := off + p.bs
			if end > len(p.data) {
				end = len(p.data)
			}
			src := p.data[off:end]
			dst := make([]byte, len(src))
			var n int
			if lv == lz4.Fast {
				n, _ = lz4.CompressBlock(src, dst, nil)
			} else {
				n, _ = lz4.CompressBlockHC(src, dst, lv, nil, nil)
			}
			if n == 0 {
				blocks = append(blocks, nil)
			} else {
				blocks = append(blocks, dst[:n])
			}
		}
		p.want = append(p.want, blocks)
	}
	seen := map[string]bool{}
	for li := range allLevels {
		seen[string(p.want[li][0])] = true
	}
	c.Max("level_probe_distinct_block_outputs_among_10_levels", int64(len(seen)))
	if len(seen) < 3 {
		panic(harnessPanic{"level probe: the block compressors give fewer than 3 distinct outputs for the probe"})
	}
	theLevelProbe = p
	return p
}

func levelIndex(l lz4.CompressionLevel) int {
	for i, v := range allLevels {
		if v == l {
			return i
		}
	}
	return -1
}

// judge compares the blocks of a frame emitted for the probe data under level li.
func (p *levelProbe) judge(c *Ctx, who string, li int, frame []byte, det map[string]interface{}) {
	f, err := ref.ParseFrame(frame, ref.ParseOpts{})
	if err != nil || f == nil || !bytes.Equal(f.Content, p.data) {
		c.Violation("level-probe/"+who+"/frame-invalid", fmt.Sprintf("%s at level %s emitted a frame the independent parser rejects or that does not decode to the input: %v", who, levelName(allLevels[li]), err), det)
		return
	}
	if len(f.Blocks) != len(p.want[li]) {
		c.Count("level_probe_other_block_layout", 1)
		return
	}
	for bi, b := range f.Blocks {
		var stored []byte
		if !b.Stored {
			stored = frame[b.DataOff : b.DataOff+b.Size]
		}
		same := func(x []byte) bool { return (x == nil) == (stored == nil) && bytes.Equal(x, stored) }
		if same(p.want[li][bi]) {
			c.Count("level_effect_confirmed_blocks", 1)
			continue
		}
		other := -1
		for lj := range allLevels {
			if lj != li && same(p.want[lj][bi]) {
				other = lj
				break
			}
		}
		if other < 0 {
			c.Count("level_probe_blocks_matching_no_level", 1)
			continue
		}
		det["block"] = bi
		det["configured_level"] = levelName(allLevels[li])
		det["observed_level"] = levelName(allLevels[other])
		c.Violation("option-without-effect/compression-level/"+who, fmt.Sprintf("%s configured with CompressionLevelOption(%s) emitted block %d exactly as the block compressor does at %s, which differs from its output at %s",
			who, levelName(allLevels[li]), bi, levelName(allLevels[other]), levelName(allLevels[li])), det)
		return
	}
	c.Cell(fmt.Sprintf("level-probe/%s/%s", who, levelName(allLevels[li])))
}

// Writer histories: how the level reaches the Writer.
var levelHistories = []string{"apply-write-close", "apply-close-reset-write-close", "apply-readfrom-close", "apply-reset-apply-another-option", "apply-twice-last-wins"}

func numLevelCasesWriter() int64 { return int64(len(allLevels) * len(levelHistories) * 2) }

func levelCaseWriter(c *Ctx, k int64) {
	p := getLevelProbe(c)
	li := int(k) % len(allLevels)
	h := int(k) / len(allLevels) % len(levelHistories)
	conc := 1
	if int(k)/(len(allLevels)*len(levelHistories)) == 1 {
		conc = 4
	}
	lv := allLevels[li]
	otherLv := allLevels[(li+5)%len(allLevels)]
	sink := &bytes.Buffer{}
	det := map[string]interface{}{"history": levelHistories[h], "concurrency": conc, "level": levelName(lv)}
	c.Tag(fmt.Sprintf("level/%s/conc%d", levelHistories[h], conc))
	var firstErr error
	note := func(err error) {
		if err != nil && firstErr == nil {
			firstErr = err
		}
	}
	wr := c.Watch("Writer.level-history", func() {
		w := lz4.NewWriter(io.Discard)
		note(w.Apply(lz4.BlockSizeOption(lz4.Block64Kb), lz4.ConcurrencyOption(conc)))
		switch h {
		case 0:
			w.Reset(sink)
			note(w.Apply(lz4.CompressionLevelOption(lv)))
			_, err := w.Write(p.data)
			note(err)
			note(w.Close())
		case 1: // the option persists across Reset
			note(w.Apply(lz4.CompressionLevelOption(lv)))
			note(w.Close())
			w.Reset(sink)
			_, err := w.Write(p.data)
			note(err)
			note(w.Close())
		case 2:
			w.Reset(sink)
			note(w.Apply(lz4.CompressionLevelOption(lv)))
			_, err := w.ReadFrom(bytes.NewReader(p.data))
			note(err)
			note(w.Close())
		case 3: // applying another option later does not undo this one
			note(w.Apply(lz4.CompressionLevelOption(lv)))
			w.Reset(sink)
			note(w.Apply(lz4.BlockChecksumOption(true)))
			_, err := w.Write(p.data)
			note(err)
			note(w.Close())
		case 4:
			w.Reset(sink)
			note(w.Apply(lz4.CompressionLevelOption(otherLv)))
			note(w.Apply(lz4.CompressionLevelOption(lv)))
			_, err := w.Write(p.data)
			note(err)
			note(w.Close())
		}
	})
	if wr.Panicked || wr.Deadlocked {
		return
	}
	if firstErr != nil {
		c.Violation("level-probe/writer/call-failed", fmt.Sprintf("a call of history %s failed on a healthy sink: %v", levelHistories[h], firstErr), det)
		return
	}
	p.judge(c, "writer", li, sink.Bytes(), det)
}

// CompressingReader: level applied before the first Read, and kept across Reset.
func numLevelCasesCR() int64 { return int64(len(allLevels) * 2) }

func levelCaseCR(c *Ctx, k int64) {
	p := getLevelProbe(c)
	li := int(k) % len(allLevels)
	reuse := int(k)/len(allLevels) == 1
	lv := allLevels[li]
	det := map[string]interface{}{"reused": reuse, "level": levelName(lv)}
	c.Tag(fmt.Sprintf("level/compressing-reader/reused=%v", reuse))
	var out []byte
	var err error
	panicked := c.Guard("CompressingReader.level", func() {
		zr := lz4.NewCompressingReader(io.NopCloser(bytes.NewReader([]byte("first stream"))))
		if err = zr.Apply(lz4.BlockSizeOption(lz4.Block64Kb), lz4.CompressionLevelOption(lv)); err != nil {
			return
		}
		if reuse {
			if _, err = io.Copy(io.Discard, zr); err != nil {
				return
			}
		}
		zr.Reset(io.NopCloser(bytes.NewReader(p.data)))
		out, err = io.ReadAll(zr)
	})
	if panicked {
		return
	}
	if err != nil {
		c.Violation("level-probe/compressing-reader/call-failed", fmt.Sprintf("reading the probe through a CompressingReader failed: %v", err), det)
		return
	}
	p.judge(c, "compressing-reader", li, out, det)
}
