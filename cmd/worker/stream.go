package main

import (
	"bytes"
	"encoding/binary"
	"errors"
	"fmt"
	"io"

	lz4 "github.com/pierrec/lz4/v4"

	"verif/internal/gen"
	"verif/internal/prng"
	"verif/internal/ref"
)

// Helpers shared by the frame-level properties.

type wcfg struct {
	bs     lz4.BlockSize
	bc, cc bool
	size   uint64
	level  lz4.CompressionLevel
	conc   int
	legacy bool
}

var allBS = []lz4.BlockSize{lz4.Block64Kb, lz4.Block256Kb, lz4.Block1Mb, lz4.Block4Mb}
var allLevels = []lz4.CompressionLevel{lz4.Fast, lz4.Level1, lz4.Level2, lz4.Level3, lz4.Level4, lz4.Level5, lz4.Level6, lz4.Level7, lz4.Level8, lz4.Level9}

func (w wcfg) opts() []lz4.Option {
	return []lz4.Option{
		lz4.BlockSizeOption(w.bs), lz4.BlockChecksumOption(w.bc), lz4.ChecksumOption(w.cc), lz4.SizeOption(w.size),
		lz4.CompressionLevelOption(w.level), lz4.ConcurrencyOption(w.conc), lz4.LegacyOption(w.legacy),
	}
}

// hcZeroSize returns a content size for which the frame descriptor's header checksum byte
// is 0x00 with the given flags (about one descriptor in 256 has that byte; code that takes a
// zero checksum byte for "header not written yet" or "no checksum" needs exactly this).
func hcZeroSize(bs lz4.BlockSize, bc, cc bool) uint64 {
	bd := map[lz4.BlockSize]byte{lz4.Block64Kb: 0x40, lz4.Block256Kb: 0x50, lz4.Block1Mb: 0x60, lz4.Block4Mb: 0x70}[bs]
	flg := byte(0x40 | 0x20 | 0x08)
	if bc {
		flg |= 0x10
	}
	if cc {
		flg |= 0x04
	}
	var d [10]byte
	d[0], d[1] = flg, bd
	for n := uint64(1); n < 100000; n++ {
		binary.LittleEndian.PutUint64(d[2:], n)
		if ref.HeaderChecksum(d[:]) == 0 {
			return n
		}
	}
	return 1
}

func (w wcfg) blockMax() int {
	if w.legacy {
		return ref.LegacyBlock
	}
	return int(w.bs)
}

func (w wcfg) refcfg(noFlush bool) ref.WriterConfig {
	return ref.WriterConfig{Legacy: w.legacy, BlockMax: int(w.bs), BlockChecksum: w.bc, ContentChecksum: w.cc, ContentSize: w.size, NoFlush: noFlush}
}

func levelName(l lz4.CompressionLevel) string {
	if l == lz4.Fast {
		return "fast"
	}
	for i, v := range allLevels {
		if v == l {
			return fmt.Sprintf("L%d", i)
		}
	}
	return fmt.Sprintf("lvl%d", l)
}

func (w wcfg) String() string {
	return fmt.Sprintf("bs=%dK bc=%v cc=%v size=%d level=%s conc=%d legacy=%v", int(w.bs)>>10, w.bc, w.cc, w.size, levelName(w.level), w.conc, w.legacy)
}

func (w wcfg) cell() string {
	sz := "nosize"
	if w.size != 0 {
		sz = "size"
	}
	lc := "fast"
	if w.level != lz4.Fast {
		lc = "hc"
	}
	return fmt.Sprintf("bs%dK/bc%v/cc%v/%s/%s/conc%d/legacy%v", int(w.bs)>>10, b2i(w.bc), b2i(w.cc), sz, lc, w.conc, b2i(w.legacy))
}

func b2i(b bool) int {
	if b {
		return 1
	}
	return 0
}

// delivery: how the input reaches the Writer.
const (
	delSingle    = iota // one Write
	delPartition        // random partition, no Flush
	delFlush            // random partition with Flush calls in between
	delReadFrom         // one ReadFrom from a fragmenting source
	numDeliveries
)

var delNames = []string{"write1", "partition", "partition+flush", "readfrom"}

type writeResult struct {
	sink    []byte
	calls   []string // calls made
	failed  string   // first call that returned an error ("" if none)
	err     error
	flushed bool
	panicky bool
}

// writeStream drives a fresh Writer; every call is expected to return nil.
func writeStream(c *Ctx, cfg wcfg, input []byte, del int, g *prng.Rng) writeResult {
	var res writeResult
	var parts []int
	if del == delPartition || del == delFlush {
		parts = gen.Partition(g, len(input), 1+g.N(4), int(cfg.bs))
	}
	// generous call budget: a block costs at most 3 sink calls, every Write/Flush at most one block more
	sink := &gen.Sink{Budget: 1000 + 16*(len(parts)+len(input)/int(cfg.bs)+4)}
	var w *lz4.Writer
	res.panicky = c.Guard("Writer", func() {
		w = lz4.NewWriter(sink)
		if err := w.Apply(cfg.opts()...); err != nil {
			res.failed, res.err = "Apply", err
			return
		}
		switch del {
		case delSingle:
			n, err := writeRecycled(w, input)
			res.calls = append(res.calls, fmt.Sprintf("Write(%d)", len(input)))
			if err != nil || n != len(input) {
				res.failed, res.err = "Write", fmt.Errorf("n=%d err=%v", n, err)
				return
			}
		case delPartition, delFlush:
			p := 0
			for _, k := range parts {
				if g.N(8) == 0 {
					// an empty Write is legal and must be a no-op
					if n0, err0 := w.Write(nil); n0 != 0 || err0 != nil {
						res.failed, res.err = "Write(nil)", fmt.Errorf("n=%d err=%v", n0, err0)
						return
					}
				}
				n, err := writeRecycled(w, input[p:p+k])
				res.calls = append(res.calls, fmt.Sprintf("Write(%d)", k))
				if err != nil || n != k {
					res.failed, res.err = "Write", fmt.Errorf("n=%d err=%v", n, err)
					return
				}
				p += k
				if del == delFlush && g.N(3) == 0 {
					res.flushed = true
					res.calls = append(res.calls, "Flush")
					if err := w.Flush(); err != nil {
						res.failed, res.err = "Flush", err
						return
					}
				}
			}
			if del == delFlush && len(input) == 0 {
				res.flushed = true
				res.calls = append(res.calls, "Flush")
				if err := w.Flush(); err != nil {
					res.failed, res.err = "Flush", err
					return
				}
			}
		case delReadFrom:
			src := &gen.Source{Data: input, Mode: g.N(gen.NumReadModes), G: g}
			if src.Mode == gen.ReadOneByte && len(input) > 200000 {
				src.Mode = gen.ReadRandom
			}
			n, err := w.ReadFrom(src)
			res.calls = append(res.calls, fmt.Sprintf("ReadFrom(%d,mode%d)", len(input), src.Mode))
			if err != nil || n != int64(len(input)) {
				res.failed, res.err = "ReadFrom", fmt.Errorf("n=%d err=%v", n, err)
				return
			}
		}
		res.calls = append(res.calls, "Close")
		if err := w.Close(); err != nil {
			res.failed, res.err = "Close", err
		}
	})
	res.sink = sink.Buf
	if sink.Overrun && !res.panicky {
		res.panicky = true
		c.Violation("runaway/Writer/sink-budget", fmt.Sprintf("the sink was called %d times for %d Write/Flush calls on %d bytes", sink.Calls, len(parts), len(input)), map[string]interface{}{"config": cfg.String(), "calls": trimCalls(res.calls)})
	}
	return res
}

// read modes
const (
	rdWriteTo = iota
	rdSmall   // small buffers (buffered path)
	rdBlock   // buffers >= block size (direct path)
	rdMixed   // alternating direct and buffered
	numReadModes
)

var rdNames = []string{"writeto", "read-small", "read-direct", "read-mixed"}

type readResult struct {
	out      []byte
	err      error // nil == clean end of stream
	consumed int
	panicky  bool
	reads    int
}

// readStream decodes a stream with a fresh Reader.
func readStream(c *Ctx, frame []byte, conc int, mode int, blockMax int, g *prng.Rng, srcMode int) readResult {
	var res readResult
	// every successful source call hands out at least one byte (zero-length reads are at most every other call)
	src := &gen.Source{Data: frame, Mode: srcMode, G: g, Budget: 2000 + 3*len(frame)}
	// half of the readers get a source that can also Seek (as files and bytes.Reader can)
	var rsrc io.Reader = src
	if g.Bool() {
		rsrc = gen.SeekableSource{Source: src}
	}
	res.panicky = c.Guard("Reader", func() {
		r := lz4.NewReader(rsrc)
		if err := r.Apply(lz4.ConcurrencyOption(conc)); err != nil {
			res.err = fmt.Errorf("Apply: %w", err)
			return
		}
		if mode == rdWriteTo {
			var out bytes.Buffer
			_, err := r.WriteTo(&out)
			res.out, res.err = out.Bytes(), err
			return
		}
		sizes := []int{1, 7, 4096, blockMax - 1}
		switch mode {
		case rdBlock:
			sizes = []int{blockMax, blockMax + 1, 2*blockMax + 5}
		case rdMixed:
			sizes = []int{1, blockMax, 7, blockMax + 1, 4096, blockMax - 1, blockMax}
		}
		buf := make([]byte, 2*blockMax+8)
		zero := 0
		for {
			k := sizes[g.N(len(sizes))]
			if k < 1 {
				k = 1
			}
			n, err := r.Read(buf[:k])
			res.reads++
			if n < 0 || n > k {
				res.err = fmt.Errorf("Read returned n=%d for a %d-byte buffer", n, k)
				return
			}
			res.out = append(res.out, buf[:n]...)
			// the caller owns buf between calls and may do anything with it
			for j := 0; j < n; j++ {
				buf[j] = 0xE3
			}
			if err == io.EOF {
				return
			}
			if err != nil {
				res.err = err
				return
			}
			if n == 0 {
				zero++
				if zero > 1000 {
					res.err = errNoProgress
					return
				}
			} else {
				zero = 0
			}
			if len(res.out) > len(frame)*300+(64<<20) {
				res.err = errors.New("harness: output implausibly large")
				return
			}
		}
	})
	res.consumed = src.Pos
	return res
}

var errNoProgress = errors.New("harness: Read returned (0, nil) 1000 times in a row")

// writeRecycled passes a private copy of data to Write and overwrites that copy
// as soon as Write has returned, the way a caller that recycles its buffer does
// (io.Writer: "Write must not retain p").
func writeRecycled(w io.Writer, data []byte) (int, error) {
	tmp := append([]byte(nil), data...)
	n, err := w.Write(tmp)
	for i := range tmp {
		tmp[i] = 0xC7
	}
	return n, err
}
