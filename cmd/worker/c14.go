package main

import (
	"bytes"
	"fmt"
	"sort"
	"strings"

	lz4 "github.com/pierrec/lz4/v4"

	"verif/internal/gen"
	"verif/internal/mon"
	"verif/internal/prng"
)

// C14 – determinism.  Block half (fresh / reused / pooled compressors under
// real histories) runs in the plain build; the frame half (concurrency levels,
// schedules, Write partitions) runs in the -race build with poisoned pools and
// scheduling perturbation, so that dependence on stale pool contents or on
// timing shows up as a byte difference.

func c14FrameTotal(c *Ctx) int64 {
	if c.Tier == "thorough" {
		return 2400
	}
	return 160
}

func init() {
	register("C14", &PropDef{
		Setup: func(c *Ctx) {
			compSetup(c)
			if strings.HasPrefix(c.Variant, "race") {
				installHooks()
			}
		},
		Total: func(c *Ctx) int64 {
			if strings.HasPrefix(c.Variant, "race") {
				return c14FrameTotal(c)
			}
			return planFor(c, "C14").total()
		},
		Run: func(c *Ctx, i int64) {
			if strings.HasPrefix(c.Variant, "race") {
				c14FrameCase(c, i)
			} else {
				c14BlockCase(c, i)
			}
		},
	})
}

func c14Emit(c *Ctx, cfg wcfg, data []byte, parts []int, readFrom bool, srcMode int, g *prng.Rng) ([]byte, bool) {
	return c14EmitF(c, cfg, data, parts, nil, readFrom, srcMode, g)
}

// c14EmitF: as c14Emit, with a Flush after every Write whose index is set in flushAfter.
func c14EmitF(c *Ctx, cfg wcfg, data []byte, parts []int, flushAfter []bool, readFrom bool, srcMode int, g *prng.Rng) ([]byte, bool) {
	sink := &gen.Sink{Budget: 1000 + 16*(len(parts)+len(data)/65536+4)}
	var failed error
	wr := c.Watch("Writer", func() {
		w := lz4.NewWriter(sink)
		if err := w.Apply(cfg.opts()...); err != nil {
			failed = err
			return
		}
		if readFrom {
			src := &gen.Source{Data: data, Mode: srcMode, G: g, Budget: 3000 + 3*len(data)}
			if _, err := w.ReadFrom(src); err != nil {
				failed = err
				return
			}
		} else {
			p := 0
			for j, k := range parts {
				if _, err := writeRecycled(w, data[p:p+k]); err != nil {
					failed = err
					return
				}
				p += k
				if j < len(flushAfter) && flushAfter[j] {
					if err := w.Flush(); err != nil {
						failed = err
						return
					}
				}
			}
		}
		failed = w.Close()
	})
	if wr.Deadlocked {
		c.Violation("deadlock/writer", "a Writer call never returns: every library goroutine is parked", map[string]interface{}{"config": cfg.String(), "goroutines": wr.Dump})
		return nil, false
	}
	if wr.Panicked {
		return nil, false
	}
	if failed != nil {
		c.Violation("writer-call-failed", fmt.Sprintf("a Writer call failed on a healthy sink: %v [%s]", failed, cfg), nil)
		return nil, false
	}
	return sink.Buf, true
}

// c14EmitAfterHistory emits the stream with a Writer that has a past: another frame with other
// options (block size, checksums) that was closed (1), abandoned by Reset in mid-frame (2), or
// whose header write failed (3); then Reset onto a new sink and Apply of the options under test.
// "Output is a pure function of the input bytes and the settings": the frame must equal the
// one of a new Writer.
func c14EmitAfterHistory(c *Ctx, cfg wcfg, data []byte, hist int, g *prng.Rng) ([]byte, bool) {
	other := cfg
	other.bs = lz4.Block256Kb
	if cfg.bs == lz4.Block256Kb {
		other.bs = lz4.Block64Kb
	}
	other.bc, other.cc, other.size = !cfg.bc, !cfg.cc, 0
	past := mixData(g, 70000+g.N(300000))
	sink := &gen.Sink{Budget: 1000 + 16*(len(data)/65536+8)}
	var failed error
	wr := c.Watch("Writer", func() {
		first := &gen.Sink{Budget: 4000}
		if hist == 3 {
			first.FailFrom = 1
		}
		w := lz4.NewWriter(first)
		if err := w.Apply(other.opts()...); err != nil {
			failed = err
			return
		}
		_, werr := w.Write(past)
		switch hist {
		case 1:
			if werr == nil {
				werr = w.Close()
			}
			if werr != nil {
				failed = werr
				return
			}
		case 3:
			_ = w.Close() // returns the sink's error
		}
		w.Reset(sink)
		if err := w.Apply(cfg.opts()...); err != nil {
			failed = err
			return
		}
		if _, err := writeRecycled(w, data); err != nil {
			failed = err
			return
		}
		failed = w.Close()
	})
	if wr.Deadlocked {
		c.Violation("deadlock/writer", "a Writer call never returns: every library goroutine is parked", map[string]interface{}{"config": cfg.String(), "goroutines": wr.Dump, "history": hist})
		return nil, false
	}
	if wr.Panicked {
		return nil, false
	}
	if failed != nil {
		c.Violation("writer-call-failed/after-history", fmt.Sprintf("a call on a reused Writer failed on a healthy sink: %v [%s, history %d]", failed, cfg, hist), nil)
		return nil, false
	}
	return sink.Buf, true
}

// flushScript cuts [0,n) at the Flush offsets (plus, when extra is set, at random further points)
// and marks the Writes that end on a Flush offset.
func flushScript(g *prng.Rng, n int, flushOffs []int, extra bool) (parts []int, flushAfter []bool) {
	cut := map[int]bool{}
	isF := map[int]bool{}
	for _, o := range flushOffs {
		cut[o], isF[o] = true, true
	}
	if extra {
		for k := 0; k < 5; k++ {
			cut[1+g.N(n-1)] = true
		}
	}
	cut[n] = true
	offs := make([]int, 0, len(cut))
	for o := range cut {
		offs = append(offs, o)
	}
	sort.Ints(offs)
	prev := 0
	for _, o := range offs {
		parts = append(parts, o-prev)
		flushAfter = append(flushAfter, isF[o])
		prev = o
	}
	return
}

func c14FrameCase(c *Ctx, i int64) {
	g := c.Rng(i)
	k := int(i)
	cfg := wcfg{bs: []lz4.BlockSize{lz4.Block64Kb, lz4.Block64Kb, lz4.Block256Kb}[k%3], bc: (k/3)%2 == 1, cc: (k/6)%2 == 0, level: []lz4.CompressionLevel{lz4.Fast, lz4.Level3, lz4.Fast, lz4.Level9}[(k/2)%4], conc: 1}
	if k%11 == 10 {
		cfg.legacy = true
	}
	if k%5 == 0 {
		cfg.size = 4711
	}
	bs := int(cfg.bs)
	var n int
	switch (k / 4) % 6 {
	case 0:
		n = g.N(3000)
	case 1:
		n = bs + g.Pick(-1, 0, 1)
	case 2:
		n = 2*bs + g.N(bs)
	case 3:
		n = bs * (2 + g.N(3))
	case 4:
		n = 5*bs + g.N(1000)
	default:
		n = g.N(2 * bs)
	}
	var data []byte
	switch k % 3 {
	case 0:
		data = gen.Text(g, c.Repo, n)
	case 1:
		data = mixData(g, n)
	default:
		data = distinctBlocks(g, n/bs, bs, n%bs)
	}
	mon.SetPerturbation(mon.PerturbOff, 0, 0)
	refW, ok := c14Emit(c, cfg, data, []int{len(data)}, false, 0, g)
	if !ok {
		return
	}
	refRF, ok2 := c14Emit(c, cfg, data, nil, true, gen.ReadPlain, g)
	det := func(what string, conc int) map[string]interface{} {
		return map[string]interface{}{"config": cfg.String(), "stream_len": len(data), "variant": what, "writer_conc": conc}
	}
	// Flush offsets of this case (a partial block pending at most of them) and the sequential reference
	var flushOffs []int
	var refFlush []byte
	if len(data) > 10 {
		for o := 1 + g.N(bs); o < len(data) && len(flushOffs) < 6; o += 1 + g.N(2*bs) {
			flushOffs = append(flushOffs, o)
		}
		parts, fl := flushScript(g, len(data), flushOffs, false)
		var okF bool
		if refFlush, okF = c14EmitF(c, cfg, data, parts, fl, false, 0, g); !okF {
			flushOffs = nil
		}
	}
	for _, conc := range []int{1, 2, 4, 16} {
		cfg2 := cfg
		cfg2.conc = conc
		styles := []int{0, 1, 2, 4}
		if len(data) <= 3000 {
			styles = append(styles, 3)
		}
		for _, st := range styles {
			if conc == 1 && st == 0 {
				continue
			}
			parts := gen.Partition(g, len(data), st, bs)
			if len(data) == 0 {
				parts = nil
			}
			mode, seed, slow, pname := perturbFor(c, i, conc*10+st)
			mon.PoolStart(seed&1 == 0)
			mon.SetPerturbation(mode, seed, slow)
			got, ok := c14Emit(c, cfg2, data, parts, false, 0, g)
			mon.SetPerturbation(mon.PerturbOff, 0, 0)
			rep := mon.PoolStop()
			c.Count("frame_emissions", 1)
			c.Count("poison_checks", rep.PoisonChecks)
			if !ok {
				continue
			}
			for _, m := range rep.WriteAfterFree {
				c.Violation("write-after-release", m, det("write", conc))
			}
			if !bytes.Equal(got, refW) {
				key := "frame-depends-on-concurrency-or-schedule"
				if conc == 1 {
					key = "frame-depends-on-write-partition"
				}
				if bytes.Contains(got, bytes.Repeat([]byte{0xDB}, 64)) {
					key = "frame-contains-stale-pool-contents"
				}
				c.Violation(key, fmt.Sprintf("stream of %d bytes, %s: concurrency %d with %d Write calls (style %d, %s) emitted %d bytes that differ from one Write at concurrency 1 (%d bytes)", len(data), cfg, conc, len(parts), st, pname, len(got), len(refW)), det(fmt.Sprintf("partition-style-%d", st), conc))
			}
			c.Cell(fmt.Sprintf("frame/%s/len%s/conc%d/style%d/%s", cfg.cell(), sizeBucketK(len(data)), conc, st, pname[:4]))
		}
		// Flush changes the block boundaries, but for the same Flush positions (byte offsets) the frame
		// must still not depend on the concurrency level, the schedule or the other cuts between Writes
		if len(flushOffs) > 0 {
			for v := 0; v < 2; v++ {
				if conc == 1 && v == 0 {
					continue
				}
				parts, fl := flushScript(g, len(data), flushOffs, v == 1)
				mode, seed, slow, pname := perturbFor(c, i, conc*1000+v)
				mon.PoolStart(seed&1 == 0)
				mon.SetPerturbation(mode, seed, slow)
				got, ok := c14EmitF(c, cfg2, data, parts, fl, false, 0, g)
				mon.SetPerturbation(mon.PerturbOff, 0, 0)
				rep := mon.PoolStop()
				c.Count("frame_emissions", 1)
				c.Count("frame_emissions_with_flush", 1)
				if !ok {
					continue
				}
				for _, m := range rep.WriteAfterFree {
					c.Violation("write-after-release", m, det("write+flush", conc))
				}
				if !bytes.Equal(got, refFlush) {
					key := "flushed-frame-depends-on-concurrency-or-schedule"
					if conc == 1 {
						key = "flushed-frame-depends-on-write-partition"
					}
					if bytes.Contains(got, bytes.Repeat([]byte{0xDB}, 64)) {
						key = "frame-contains-stale-pool-contents"
					}
					c.Violation(key, fmt.Sprintf("stream of %d bytes, %s: concurrency %d with %d Write calls and Flush at %d fixed offsets (%s) emitted %d bytes that differ from the sequential Writer's %d bytes for the same Flush offsets", len(data), cfg, conc, len(parts), len(flushOffs), pname, len(got), len(refFlush)), det("write+flush", conc))
				}
				c.Cell(fmt.Sprintf("frame/%s/len%s/conc%d/flush/v%d/%s", cfg.cell(), sizeBucketK(len(data)), conc, v, pname[:4]))
			}
		}
		if !cfg.legacy && (conc == 1 || conc == 4) {
			for hist := 1; hist <= 3; hist++ {
				got, ok := c14EmitAfterHistory(c, cfg2, data, hist, g)
				c.Count("frame_emissions", 1)
				c.Count("frame_emissions_after_history", 1)
				if !ok {
					continue
				}
				if !bytes.Equal(got, refW) {
					c.Violation("frame-depends-on-writer-history", fmt.Sprintf("stream of %d bytes, %s, concurrency %d: a Writer that first handled another frame with other options (%s), then Reset and Apply, emitted %d bytes that differ from a new Writer's %d bytes", len(data), cfg, conc, []string{"", "closed", "abandoned in mid-frame", "header write failed"}[hist], len(got), len(refW)), det(fmt.Sprintf("history-%d", hist), conc))
				}
				c.Cell(fmt.Sprintf("frame/%s/len%s/conc%d/history%d", cfg.cell(), sizeBucketK(len(data)), conc, hist))
			}
		}
		if ok2 {
			for _, sm := range []int{gen.ReadPlain, gen.ReadRandom, gen.ReadWithEOF, gen.ReadZeroMixed} {
				if conc == 1 && sm == gen.ReadPlain {
					continue
				}
				mode, seed, slow, pname := perturbFor(c, i, conc*100+sm)
				mon.PoolStart(seed&1 == 1)
				mon.SetPerturbation(mode, seed, slow)
				got, ok := c14Emit(c, cfg2, data, nil, true, sm, g)
				mon.SetPerturbation(mon.PerturbOff, 0, 0)
				rep := mon.PoolStop()
				c.Count("frame_emissions", 1)
				c.Count("poison_checks", rep.PoisonChecks)
				if !ok {
					continue
				}
				for _, m := range rep.WriteAfterFree {
					c.Violation("write-after-release", m, det("readfrom", conc))
				}
				if !bytes.Equal(got, refRF) {
					key := "readfrom-frame-depends-on-concurrency-or-fragmentation"
					if bytes.Contains(got, bytes.Repeat([]byte{0xDB}, 64)) {
						key = "frame-contains-stale-pool-contents"
					}
					c.Violation(key, fmt.Sprintf("stream of %d bytes, %s: ReadFrom at concurrency %d from a source in mode %d (%s) emitted %d bytes that differ from ReadFrom at concurrency 1 from a plain source (%d bytes)", len(data), cfg, conc, sm, pname, len(got), len(refRF)), det(fmt.Sprintf("readfrom-srcmode-%d", sm), conc))
				}
				c.Cell(fmt.Sprintf("frame/%s/len%s/conc%d/readfrom-mode%d", cfg.cell(), sizeBucketK(len(data)), conc, sm))
			}
		}
	}
	if i%23 == 0 {
		c.Sample(map[string]interface{}{"kind": "frame-determinism", "config": cfg.String(), "stream_len": len(data), "concurrency_levels": []int{1, 2, 4, 16}, "partition_styles": "one write, random, block+-1, tiny (small streams), large random", "readfrom_source_modes": 4})
	}
}
