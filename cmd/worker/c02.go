package main

import (
	"bytes"
	"errors"
	"fmt"

	lz4 "github.com/pierrec/lz4/v4"

	"verif/internal/gen"
	"verif/internal/prng"
	"verif/internal/ref"
)

// C02 – frame round trip; C09 – emitted frames conform to the specification.
// Both run the same (options x input x delivery) stream through a real Writer;
// C02 reads the result back with real Readers, C09 hands it to the
// independent frame parser in strict-writer mode.

var concLevels = []int{1, 2, 4, -1}

func c02Configs(c *Ctx) int64 { return 4 * 2 * 2 * 2 * 4 * 2 } // bs x bc x cc x size x conc x legacy

func c02Reps(c *Ctx) int64 {
	if c.Tier == "thorough" {
		return 10 // every level for every configuration
	}
	return 1
}

func init() {
	for _, id := range []string{"C02", "C09"} {
		id := id
		register(id, &PropDef{
			Setup: func(c *Ctx) { gen.LoadTexts(c.Repo) },
			Total: func(c *Ctx) int64 { return c02Configs(c) * c02Reps(c) },
			Run:   func(c *Ctx, i int64) { c02Case(c, i, id) },
		})
	}
}

func cfgFromIndex(i int64) wcfg {
	k := int(i % 256)
	rep := int(i / 256)
	var w wcfg
	w.bs = allBS[k%4]
	w.bc = (k/4)%2 == 1
	w.cc = (k/8)%2 == 1
	hasSize := (k/16)%2 == 1
	w.conc = concLevels[(k/32)%4]
	w.legacy = (k/128)%2 == 1
	// level: rotate so that neighbouring configurations use different levels
	w.level = allLevels[(k*7+k/10+rep)%len(allLevels)]
	if hasSize {
		w.size = 123
		switch (k + rep) % 3 {
		case 0:
			w.size = 1<<40 + 5
		case 1:
			// the descriptor's header checksum byte is 0x00
			w.size = hcZeroSize(w.bs, w.bc && !w.legacy, w.cc && !w.legacy)
		}
	}
	return w
}

type inputSpec struct {
	name string
	data []byte
}

// mixData: random blocks interleaved with runs – cheap for HC at every depth.
func mixData(g *prng.Rng, n int) []byte {
	b := make([]byte, 0, n)
	for len(b) < n {
		k := 200 + g.N(3000)
		if g.Bool() {
			b = append(b, g.Bytes(k)...)
		} else {
			b = append(b, bytes.Repeat([]byte{byte(g.Next())}, k)...)
		}
	}
	return b[:n]
}

// zeroSumData returns n random bytes (n%16 in {4,8,12}) whose XXH32 is 0.
func zeroSumData(g *prng.Rng, n int) []byte {
	for n%16 != 4 && n%16 != 8 && n%16 != 12 {
		n++
	}
	b := g.Bytes(n)
	s, ok := ref.XXH32Suffix(b[:n-4], 0)
	if !ok {
		panic(harnessPanic{"zeroSumData"})
	}
	copy(b[n-4:], s[:])
	return b
}

func c02Inputs(c *Ctx, cfg wcfg, i int64, g *prng.Rng) []inputSpec {
	bm := cfg.blockMax()
	heavy := cfg.level >= lz4.Level4
	thorough := c.Tier == "thorough"
	var in []inputSpec
	in = append(in, inputSpec{"empty", nil}, inputSpec{"one-byte", []byte{byte(g.Next())}})
	mk := func(n int) []byte {
		if heavy || n > 1<<20 {
			return mixData(g, n)
		}
		if g.Bool() {
			return gen.Text(g, c.Repo, n)
		}
		return mixData(g, n)
	}
	if cfg.legacy {
		in = append(in, inputSpec{"sub-block", gen.Text(g, c.Repo, 1000+g.N(100000))})
		if !heavy || thorough {
			switch i % 3 {
			case 0:
				in = append(in, inputSpec{"block-exact", mixData(g, bm)})
			case 1:
				in = append(in, inputSpec{"block-plus-1", mixData(g, bm+1)})
			default:
				in = append(in, inputSpec{"block-minus-1", mixData(g, bm-1)})
			}
			if cfg.level == lz4.Fast || thorough {
				in = append(in, inputSpec{"incompressible-full-block", g.Bytes(bm + 10)})
			}
			if thorough {
				in = append(in, inputSpec{"multi-block", mixData(g, 2*bm+12345)})
			}
		}
		return in
	}
	small := bm <= 256<<10
	if small || thorough {
		in = append(in, inputSpec{"block-minus-1", mk(bm - 1)}, inputSpec{"block-exact", mk(bm)}, inputSpec{"block-plus-1", mk(bm + 1)})
	} else {
		in = append(in, []inputSpec{{"block-minus-1", mk(bm - 1)}, {"block-exact", mk(bm)}, {"block-plus-1", mk(bm + 1)}}[i%3])
	}
	switch {
	case bm == 64<<10:
		in = append(in, inputSpec{"multi-block", mk(bm*(2+g.N(4)) + g.N(bm))}, inputSpec{"multi-block-exact", mk(bm * (2 + g.N(3)))})
	case bm == 256<<10 || !heavy || thorough:
		in = append(in, inputSpec{"multi-block", mk(2*bm + g.N(bm))})
		if i%2 == 0 {
			in = append(in, inputSpec{"multi-block-exact", mk(2 * bm)})
		}
	}
	if bm <= 256<<10 || thorough {
		// a stored (incompressible) block followed by compressible ones, and the other way round
		in = append(in, inputSpec{"raw-then-compressible", append(g.Bytes(bm), gen.Text(g, c.Repo, bm+bm/3)...)},
			inputSpec{"compressible-then-raw", append(gen.Text(g, c.Repo, bm), g.Bytes(bm/2+7)...)})
	}
	if bm > 64<<10 {
		// blocks longer than the 64 KiB window whose only redundancy lies exactly at the window's edge:
		// noise with a period of 65535 / 65536 / 65537 bytes (a match at distance 65536 must not be used)
		per := []int{65536, 65535, 65537, 65536}[i%4]
		in = append(in, inputSpec{"window-edge-period", gen.Periodic(g, minInt(bm, 256<<10)-g.N(3000), per)})
	}
	in = append(in, inputSpec{"incompressible", g.Bytes(minInt(bm+bm/2, 300000) + g.N(100))}, inputSpec{"highly-compressible", bytes.Repeat([]byte("ab"), minInt(bm, 1<<20)/2+g.N(50))})
	if cfg.bc {
		in = append(in, inputSpec{"block-xxh32-zero", zeroSumData(g, 500+g.N(3000))})
	}
	if cfg.cc {
		in = append(in, inputSpec{"content-xxh32-zero", zeroSumData(g, 500+g.N(3000))})
	}
	return in
}

func errClass(err error) string {
	switch {
	case err == nil:
		return "nil"
	case errors.Is(err, lz4.ErrInvalidBlockChecksum):
		return "invalid-block-checksum"
	case errors.Is(err, lz4.ErrInvalidFrameChecksum):
		return "invalid-frame-checksum"
	case errors.Is(err, lz4.ErrInvalidHeaderChecksum):
		return "invalid-header-checksum"
	case errors.Is(err, lz4.ErrInvalidSourceShortBuffer):
		return "invalid-source"
	case errors.Is(err, lz4.ErrOptionInvalidBlockSize):
		return "invalid-block-size"
	case errors.Is(err, lz4.ErrInvalidFrame):
		return "invalid-frame"
	case errors.Is(err, errNoProgress):
		return "no-progress"
	}
	return "other"
}

// c02Coincidence: directed stream whose last block's size word equals the number of content
// bytes in front of it (see coincidenceScript); read back by every reader.
func c02Coincidence(c *Ctx, cfg wcfg, i int64, g *prng.Rng) {
	for _, two := range []bool{false, true} {
		steps, ok := coincidenceScript(c, g, cfg, two)
		if !ok {
			c.Count("coincidence_streams_not_built", 1)
			continue
		}
		frame, input, err := writeScript(cfg, steps)
		if err != nil {
			c.Violation("writer-call-failed/coincidence", fmt.Sprintf("a Writer call failed on a healthy sink: %v [%s]", err, cfg), nil)
			continue
		}
		c.Count("coincidence_streams_written", 1)
		mode := "conc"
		if cfg.conc == 1 {
			mode = "seq"
		}
		det := func() map[string]interface{} {
			var lens []int
			for _, s := range steps {
				lens = append(lens, len(s.data))
			}
			return map[string]interface{}{"config": cfg.String(), "input": "size-word-equals-decoded-total", "message_lengths": lens, "frame_len": len(frame), "frame_head": hexs(head(frame, 64))}
		}
		for _, rc := range concLevels {
			for m := 0; m < numReadModes; m++ {
				rr := readStream(c, frame, rc, m, cfg.blockMax(), g, gen.ReadPlain)
				c.Count("streams_read", 1)
				if rr.panicky {
					continue
				}
				if rr.err != nil {
					c.Violation("decode-error/"+errClass(rr.err)+"/"+sigFlags(cfg)+"/"+mode+"/size-word-equals-decoded-total", fmt.Sprintf("Reader(conc %d, %s) fails on the Writer's output: %v [%s, messages flushed so that a block's size word equals the bytes decoded so far]", rc, rdNames[m], rr.err, cfg), det())
					continue
				}
				if !bytes.Equal(rr.out, input) {
					if cfg.legacy && legacyTrailerAmbiguity(frame, rr.out, input) {
						c.Violation("content-mismatch/legacy-block-size-equals-decoded-total", fmt.Sprintf("Reader(conc %d, %s) stops after %d of %d bytes with a clean end of stream: a legacy block's size word equals the number of bytes decoded so far and is taken for the kernel-style size trailer [%s, directed]", rc, rdNames[m], len(rr.out), len(input), cfg), det())
						continue
					}
					c.Violation("content-mismatch/"+sigFlags(cfg)+"/"+mode+"/size-word-equals-decoded-total", fmt.Sprintf("Reader(conc %d, %s) returns %d bytes that differ from the %d-byte input [%s, messages flushed so that a block's size word equals the bytes decoded so far]", rc, rdNames[m], len(rr.out), len(input), cfg), det())
					continue
				}
				c.Cell(cfg.cell() + "/size-word-equals-decoded-total/" + fmt.Sprint(two) + "/rconc" + fmt.Sprint(rc) + "/" + rdNames[m])
			}
		}
	}
}

// c02Reuse: one Writer emits three frames (Reset onto a new sink in between): some content whose
// length is not a multiple of 16, then an empty frame, then a few bytes.  Each sink must hold one
// conforming frame for what was written into it (C09) that reads back (C02): nothing of an earlier
// frame (checksum state, buffers, sizes) may show in a later one.
func c02Reuse(c *Ctx, cfg wcfg, i int64, g *prng.Rng, prop string) {
	bm := cfg.blockMax()
	first := mixData(g, minInt(bm, 70000)+1+g.N(14))
	if len(first)%16 == 0 {
		first = first[:len(first)-3]
	}
	inputs := [][]byte{first, nil, g.Bytes(1 + g.N(40))}
	if i%2 == 1 {
		inputs[1], inputs[2] = inputs[2], inputs[1]
	}
	sinks := []*gen.Sink{{Budget: 4000}, {Budget: 4000}, {Budget: 4000}}
	failed := ""
	if c.Guard("Writer.reuse", func() {
		w := lz4.NewWriter(sinks[0])
		if err := w.Apply(cfg.opts()...); err != nil {
			failed = "Apply: " + err.Error()
			return
		}
		if i%4 == 3 {
			// a past with a failure: the sink of an earlier frame failed, the caller closed the Writer twice
			// (an explicit Close and a deferred one) before reusing it
			bad := &gen.Sink{FailFrom: 1 + int(i/4)%3, Budget: 4000}
			w.Reset(bad)
			_, _ = w.Write(first[:len(first)/2])
			_ = w.Flush()
			_ = w.Close()
			_ = w.Close()
			w.Reset(sinks[0])
			c.Count("reused_writers_with_a_failed_frame_in_their_past", 1)
		}
		for k, in := range inputs {
			if k > 0 {
				w.Reset(sinks[k])
			}
			if len(in) > 0 || (i+int64(k))%2 == 0 {
				if _, err := w.Write(in); err != nil {
					failed = fmt.Sprintf("Write (frame %d): %v", k+1, err)
					return
				}
			}
			if (i/2+int64(k))%3 == 0 {
				if err := w.Flush(); err != nil {
					failed = fmt.Sprintf("Flush (frame %d): %v", k+1, err)
					return
				}
			}
			if err := w.Close(); err != nil {
				failed = fmt.Sprintf("Close (frame %d): %v", k+1, err)
				return
			}
		}
	}) {
		return
	}
	if failed != "" {
		c.ViolationAs("C02", "writer-call-failed/reuse", "a call on a reused Writer failed on a healthy sink: "+failed+" ["+cfg.String()+"]", nil)
		return
	}
	c.Count("reused_writer_frames", int64(len(inputs)))
	for k, in := range inputs {
		frame := sinks[k].Buf
		det := map[string]interface{}{"config": cfg.String(), "frame_no": k + 1, "input_lens": []int{len(inputs[0]), len(inputs[1]), len(inputs[2])}, "frame_len": len(frame), "frame_head": hexs(head(frame, 64))}
		if prop == "C09" {
			f, err := ref.ParseFrame(frame, ref.ParseOpts{EnforceBlockMax: true})
			c.Count("frames_parsed", 1)
			if err != nil {
				fe, _ := err.(*ref.FrameError)
				kind := "other"
				if fe != nil {
					kind = fe.Kind.String()
				}
				c.Violation("not-a-valid-frame/"+kind+"/reused-writer/"+sigFlags(cfg), fmt.Sprintf("frame %d of a reused Writer (%d bytes written into it) is rejected by the independent parser: %v [%s]", k+1, len(in), err, cfg), det)
				continue
			}
			for _, b := range ref.CheckConformance(f, cfg.refcfg(false), in, len(frame)) {
				key := "nonconforming/" + b[0] + "/reused-writer/" + sigFlags(cfg)
				if b[0] == "legacy-raw-block" {
					key = "nonconforming/legacy-raw-block"
				}
				c.Violation(key, fmt.Sprintf("frame %d of a reused Writer: %s [%s]", k+1, b[1], cfg), det)
			}
			c.Cell(cfg.cell() + "/reused-writer/frame" + fmt.Sprint(k+1))
			continue
		}
		for _, rc := range []int{1, 4} {
			rr := readStream(c, frame, rc, rdSmall, bm, g, gen.ReadPlain)
			c.Count("streams_read", 1)
			if rr.panicky {
				continue
			}
			if rr.err != nil {
				c.Violation("decode-error/"+errClass(rr.err)+"/"+sigFlags(cfg)+"/reused-writer", fmt.Sprintf("Reader(conc %d) fails on frame %d of a reused Writer: %v [%s]", rc, k+1, rr.err, cfg), det)
			} else if !bytes.Equal(rr.out, in) {
				c.Violation("content-mismatch/"+sigFlags(cfg)+"/reused-writer", fmt.Sprintf("Reader(conc %d) returns %d bytes for frame %d of a reused Writer, %d were written [%s]", rc, len(rr.out), k+1, len(in), cfg), det)
			} else {
				c.Cell(cfg.cell() + "/reused-writer/frame" + fmt.Sprint(k+1) + "/rconc" + fmt.Sprint(rc))
			}
		}
	}
}

func c02Case(c *Ctx, i int64, prop string) {
	cfg := cfgFromIndex(i)
	g := c.Rng(i)
	if prop == "C02" {
		c02Coincidence(c, cfg, i, c.Rng(i, 0xC01C))
	}
	c02Reuse(c, cfg, i, c.Rng(i, 0xC02E), prop)
	inputs := c02Inputs(c, cfg, i, g)
	thorough := c.Tier == "thorough"
	for ii, in := range inputs {
		dels := []int{int(i+int64(ii)) % numDeliveries}
		if thorough || len(in.data) <= 200000 {
			dels = []int{delSingle, delPartition, delFlush, delReadFrom}
		}
		for _, del := range dels {
			res := writeStream(c, cfg, in.data, del, g)
			c.Count("streams_written", 1)
			det := func() map[string]interface{} {
				return map[string]interface{}{"config": cfg.String(), "input": in.name, "input_len": len(in.data), "delivery": delNames[del], "calls": trimCalls(res.calls), "frame_len": len(res.sink), "frame_head": hexs(head(res.sink, 64))}
			}
			mode := "conc"
			if cfg.conc == 1 {
				mode = "seq"
			}
			sig := mode + "/" + delNames[del]
			if cfg.legacy {
				sig = "legacy/" + sig
			}
			if res.panicky {
				continue
			}
			if res.failed != "" {
				c.ViolationAs("C02", "writer-call-failed/"+res.failed+"/"+sig, fmt.Sprintf("%s returned an error on a healthy sink: %v [%s, input %s %d bytes]", res.failed, res.err, cfg, in.name, len(in.data)), det())
				continue
			}
			if prop == "C09" {
				c09Judge(c, cfg, in, del, res, sig, det)
				continue
			}
			// C02: read back
			type rd struct{ conc, mode int }
			var rds []rd
			if len(res.sink) < 100000 || (thorough && len(res.sink) < 1<<20) {
				for _, cc := range concLevels {
					for m := 0; m < numReadModes; m++ {
						rds = append(rds, rd{cc, m})
					}
				}
			} else {
				k := int(i) + ii + del
				rds = append(rds, rd{concLevels[k%4], k % numReadModes}, rd{concLevels[(k+1)%4], (k + 2) % numReadModes})
				if thorough {
					rds = append(rds, rd{concLevels[(k+2)%4], (k + 1) % numReadModes}, rd{concLevels[(k+3)%4], (k + 3) % numReadModes})
				}
			}
			for _, r := range rds {
				rr := readStream(c, res.sink, r.conc, r.mode, cfg.blockMax(), g, gen.ReadPlain)
				c.Count("streams_read", 1)
				if rr.panicky {
					continue
				}
				rsig := sig + "/" + rdNames[r.mode]
				if rr.err != nil {
					c.Violation("decode-error/"+errClass(rr.err)+"/"+sigFlags(cfg)+"/"+sig, fmt.Sprintf("Reader(conc %d, %s) fails on the Writer's output: %v [%s, input %s %d bytes, %s]", r.conc, rdNames[r.mode], rr.err, cfg, in.name, len(in.data), delNames[del]), det())
					break
				}
				if !bytes.Equal(rr.out, in.data) {
					if cfg.legacy && legacyTrailerAmbiguity(res.sink, rr.out, in.data) {
						c.Violation("content-mismatch/legacy-block-size-equals-decoded-total", fmt.Sprintf("Reader(conc %d, %s) stops after %d of %d bytes with a clean end of stream: a legacy block's size word equals the number of bytes decoded so far and is taken for the kernel-style size trailer [%s, %s]", r.conc, rdNames[r.mode], len(rr.out), len(in.data), cfg, delNames[del]), det())
						break
					}
					c.Violation("content-mismatch/"+sigFlags(cfg)+"/"+sig, fmt.Sprintf("Reader(conc %d, %s) returns %d bytes that differ from the %d-byte input [%s, input %s, %s]", r.conc, rdNames[r.mode], len(rr.out), len(in.data), cfg, in.name, delNames[del]), det())
					break
				}
				c.Cell(cfg.cell() + "/" + in.name + "/" + delNames[del] + "/rconc" + fmt.Sprint(r.conc) + "/" + rdNames[r.mode])
				_ = rsig
			}
			if i%61 == 0 && ii == 3 {
				c.Sample(map[string]interface{}{"config": cfg.String(), "input": in.name, "input_len": len(in.data), "delivery": delNames[del], "frame_len": len(res.sink), "readers": len(rds)})
			}
		}
	}
}

// sigFlags is the part of a violation signature that names the options that
// matter for the known findings (legacy and block checksum).
func sigFlags(cfg wcfg) string {
	s := "modern"
	if cfg.legacy {
		s = "legacy"
	}
	if cfg.bc {
		s += "+bc"
	}
	return s
}

func trimCalls(cs []string) []string {
	if len(cs) > 40 {
		out := append([]string{}, cs[:20]...)
		out = append(out, fmt.Sprintf("... %d more ...", len(cs)-30))
		return append(out, cs[len(cs)-10:]...)
	}
	return cs
}

func head(b []byte, n int) []byte {
	if len(b) > n {
		return b[:n]
	}
	return b
}

func c09Judge(c *Ctx, cfg wcfg, in inputSpec, del int, res writeResult, sig string, det func() map[string]interface{}) {
	f, err := ref.ParseFrame(res.sink, ref.ParseOpts{EnforceBlockMax: true})
	c.Count("frames_parsed", 1)
	if err != nil {
		fe, _ := err.(*ref.FrameError)
		key := "not-a-valid-frame/other"
		if fe != nil {
			key = "not-a-valid-frame/" + fe.Kind.String()
			if fe.Kind == ref.ErrBlockChecksum {
				if _, err2 := ref.ParseFrame(res.sink, ref.ParseOpts{EnforceBlockMax: true, SumDecoded: true}); err2 == nil {
					key = "block-checksum-over-decoded-bytes"
				}
			}
		}
		c.Violation(key+"/"+sigFlags(cfg), fmt.Sprintf("independent frame parser rejects the Writer's output: %v [%s, input %s %d bytes, %s]", err, cfg, in.name, len(in.data), delNames[del]), det())
		return
	}
	rc := cfg.refcfg(del != delFlush)
	bad := ref.CheckConformance(f, rc, in.data, len(res.sink))
	for _, b := range bad {
		key := "nonconforming/" + b[0] + "/" + sigFlags(cfg)
		if b[0] == "legacy-raw-block" {
			key = "nonconforming/legacy-raw-block"
		}
		c.Violation(key, fmt.Sprintf("%s [%s, input %s %d bytes, %s]", b[1], cfg, in.name, len(in.data), delNames[del]), det())
	}
	// (a configured content size that is not the input's length is the caller's lie: the tool checks it)
	if len(bad) == 0 && len(res.sink) <= 20<<20 && (cfg.size == 0 || cfg.size == uint64(len(in.data))) && (f.EmptyStored > 0 || prng.Hash(string(res.sink[:minInt(len(res.sink), 4096)]))%6 == 0) {
		if refCLI() == "" {
			c.Count("reference_cli_unavailable", 1)
		} else {
			out, msg, err := refCLIDecode(res.sink)
			c.Count("frames_decoded_by_the_reference_cli", 1)
			switch {
			case err != nil:
				c.Violation("reference-cli-rejects/"+sigFlags(cfg), fmt.Sprintf("the reference implementation's lz4 command rejects the Writer's output: %v %s [%s, input %s %d bytes, %s]", err, msg, cfg, in.name, len(in.data), delNames[del]), det())
			case !bytes.Equal(out, in.data):
				c.Violation("reference-cli-decodes-differently/"+sigFlags(cfg), fmt.Sprintf("the reference implementation's lz4 command decodes the Writer's output to %d bytes that differ from the %d input bytes [%s, input %s, %s]", len(out), len(in.data), cfg, in.name, delNames[del]), det())
			default:
				c.Count("reference_cli_agrees", 1)
			}
		}
	}
	stored, compressed := 0, 0
	for _, b := range f.Blocks {
		if b.Stored {
			stored++
		} else {
			compressed++
		}
	}
	if stored > 0 {
		c.Count("frames_with_stored_blocks", 1)
	}
	if f.EmptyStored > 0 {
		c.Count("frames_with_empty_stored_block", 1)
	}
	zsum := false
	for _, b := range f.Blocks {
		if b.HasChecksum && b.Checksum == 0 {
			zsum = true
		}
	}
	if zsum {
		c.Count("frames_with_zero_block_checksum", 1)
	}
	if f.ContentChecksum && f.ContentSum == 0 {
		c.Count("frames_with_zero_content_checksum", 1)
	}
	c.Cell(cfg.cell() + "/" + in.name + "/" + delNames[del] + fmt.Sprintf("/stored=%v/compressed=%v", stored > 0, compressed > 0))
	if len(f.Blocks) > 1 {
		c.Count("multi_block_frames", 1)
	}
	if len(in.data)%97 == 3 {
		c.Sample(map[string]interface{}{"config": cfg.String(), "input": in.name, "input_len": len(in.data), "delivery": delNames[del], "frame_len": len(res.sink), "blocks": len(f.Blocks), "stored_blocks": stored})
	}
}

// legacyTrailerAmbiguity recognises one specific symptom: the Reader stopped
// cleanly exactly where a legacy block's size word equals the number of bytes
// decoded before it (the Linux-kernel size trailer heuristic).
func legacyTrailerAmbiguity(frame, got, want []byte) bool {
	f, err := ref.ParseFrame(frame, ref.ParseOpts{})
	if err != nil || !f.Legacy {
		return false
	}
	cum := 0
	for _, b := range f.Blocks {
		if b.Word == uint32(cum) && len(got) == cum && cum <= len(want) && bytes.Equal(got, want[:cum]) {
			return true
		}
		cum += b.DecLen
	}
	return false
}
