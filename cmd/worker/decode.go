package main

import (
	"bytes"
	"encoding/binary"
	"fmt"
	"hash/fnv"
	"os"

	lz4 "github.com/pierrec/lz4/v4"

	"verif/internal/gen"
	"verif/internal/mon"
	"verif/internal/prng"
	"verif/internal/ref"
)

// Shared machinery for C03 (memory safety), C04 (format conformance) and C12
// (asm == portable): one seeded stream of (block, dictionary, len(dst)) triples,
// each executed in three memory placements under guard pages and canaries.

type decState struct {
	srcA, dstA   *mon.Arena
	dictEnd      *mon.Arena
	dictStart    *mon.Arena
	dictEndGen   int
	dictStartGen int
	dictGen      int
	res          *os.File
	resBuf       []byte
	mode         string // C03 | C04 | C12
	heapBack     []byte
	heapSrc      []byte
	heapDict     []byte
}

var ds decState

func decSetup(c *Ctx, mode string) {
	ds.mode = mode
	ds.srcA = mon.NewArena("src", 1<<20)
	ds.dstA = mon.NewArena("dst", 1<<20)
	ds.dictEnd = mon.NewArena("dict", 80000)
	ds.dictStart = mon.NewArena("dict", 80000)
	gen.LoadTexts(c.Repo)
	if mode == "C12" && c.outFile != nil {
		f, err := os.OpenFile(c.outFile.Name()+".res", os.O_CREATE|os.O_WRONLY|os.O_APPEND, 0o644)
		if err != nil {
			fatal("open res log: %v", err)
		}
		ds.res = f
	}
}

func decDone(c *Ctx) {
	if ds.res != nil {
		ds.res.Write(ds.resBuf)
		ds.res.Close()
	}
}

type decPlan struct{ nStruct, nValid, nMut, nTok, nRand, nDegen int64 }

func decPlanFor(c *Ctx) decPlan {
	p := decPlan{nStruct: int64(len(gen.GLit) * gen.NumOffClasses), nValid: 300, nMut: 700, nTok: 500, nRand: 1500, nDegen: 2}
	if c.Tier == "thorough" {
		p.nValid, p.nMut, p.nTok, p.nRand = 6000, 30000, 20000, 60000
	}
	return p
}

func (p decPlan) total() int64 { return p.nStruct + p.nValid + p.nMut + p.nTok + p.nRand + p.nDegen }

func init() {
	for _, id := range []string{"C03", "C04", "C12"} {
		id := id
		register(id, &PropDef{
			Setup: func(c *Ctx) { decSetup(c, id) },
			Total: func(c *Ctx) int64 { return decPlanFor(c).total() },
			Run:   decCase,
			Done:  decDone,
		})
	}
}

type decOutcome struct {
	ok    bool
	n     int
	hash  uint64
	fault bool
}

func (o decOutcome) String() string {
	if o.fault {
		return "fault/panic"
	}
	if !o.ok {
		return "error"
	}
	return fmt.Sprintf("n=%d hash=%016x", o.n, o.hash)
}

func hashBytes(b []byte) uint64 {
	h := fnv.New64a()
	h.Write(b)
	return h.Sum64()
}

// decodeOne executes one (src, dict, dl) triple in all placements and judges it.
func decodeOne(c *Ctx, i int64, sub *uint32, src, dict []byte, dl int, class string) {
	*sub++
	if len(src) > ds.srcA.Cap() || dl > ds.dstA.Cap() || len(dict) > ds.dictEnd.Cap() {
		return
	}
	want, verdict, st := ref.DecodeBlock(src, dict, dl)
	det := func(extra string) map[string]interface{} {
		return map[string]interface{}{"src": hexs(src), "dictlen": len(dict), "dstlen": dl, "reference": verdict.String(), "class": class, "sub": *sub, "note": extra, "dict": hexs(dict)}
	}
	var outs [4]decOutcome
	nplace := 4
	for pl := 0; pl < nplace; pl++ {
		var s, d, dst []byte
		var back []byte
		fill := byte(0xA5)
		if pl%2 == 1 {
			fill = 0x3C
		}
		const pad = 80
		switch pl {
		case 0: // every buffer ends at an unmapped page; inputs read-only
			s = ds.srcA.End(len(src), src)
			if ds.dictEndGen != ds.dictGen || true {
				ds.dictEnd.SetReadOnly(false)
				d = ds.dictEnd.End(len(dict), dict)
				ds.dictEndGen = ds.dictGen
			}
			dst = ds.dstA.End(dl, nil)
			if dict == nil {
				d = nil
			}
		case 1: // every buffer starts right after an unmapped page
			s = ds.srcA.Start(len(src), src)
			ds.dictStart.SetReadOnly(false)
			d = ds.dictStart.Start(len(dict), dict)
			dst = ds.dstA.Start(dl, nil)
			if dict == nil {
				d = nil
			}
		default: // heap buffers, destination with spare capacity holding a canary
			ds.heapSrc = append(ds.heapSrc[:0], src...)
			s = ds.heapSrc
			if dict != nil {
				ds.heapDict = append(ds.heapDict[:0], dict...)
				d = ds.heapDict
			}
			need := pad + dl + pad
			if cap(ds.heapBack) < need {
				ds.heapBack = make([]byte, need)
			}
			back = ds.heapBack[:need]
			mon.CanaryFill(back, fill)
			dst = back[pad : pad+dl]
		}
		for k := range dst {
			dst[k] = fill
		}
		if pl < 2 {
			ds.srcA.SetReadOnly(true)
			if pl == 0 {
				ds.dictEnd.SetReadOnly(true)
			} else {
				ds.dictStart.SetReadOnly(true)
			}
		}
		var n int
		var err error
		fault := mon.CallGuarded(func() { n, err = lz4.UncompressBlockWithDict(s, dst, d) }, ds.srcA, ds.dstA, ds.dictEnd, ds.dictStart)
		c.Count("decode_calls", 1)
		if pl < 2 {
			ds.srcA.SetReadOnly(false)
		}
		plName := []string{"guard-end", "guard-start", "heap-canary", "heap-canary2"}[pl]
		if fault.Panicked {
			outs[pl] = decOutcome{fault: true}
			key := "panic"
			if fault.IsFault {
				key = "memory-fault/" + fault.Where
				c.Count("guard_faults", 1)
			}
			if ds.mode != "C12" {
				c.ViolationAs("C03", key+"/"+plName, fmt.Sprintf("UncompressBlockWithDict(src %d bytes, dst %d, dict %d) %s: %s", len(src), dl, len(dict), plName, fault.Msg), det(fault.Msg))
			}
			continue
		}
		o := decOutcome{ok: err == nil, n: n}
		if err == nil {
			if n < 0 || n > dl {
				if ds.mode != "C12" {
					c.ViolationAs("C03", "count-out-of-range", fmt.Sprintf("UncompressBlockWithDict returned n=%d with nil error for len(dst)=%d (src %d bytes, dict %d)", n, dl, len(src), len(dict)), det(plName))
				}
				o.hash = 0xBAD
			} else {
				o.hash = hashBytes(dst[:n])
			}
		} else if n != 0 {
			o.n = n
		}
		outs[pl] = o
		if pl >= 2 {
			if k := mon.CanaryCheck(back[:pad], fill); k >= 0 && ds.mode != "C12" {
				c.ViolationAs("C03", "write-before-dst", fmt.Sprintf("byte %d before dst modified", k), det(plName))
			}
			bad := mon.CanaryCheckRange(back, fill, pad+dl, len(back))
			if bad >= 0 && ds.mode != "C12" {
				c.ViolationAs("C03", "write-beyond-len", fmt.Sprintf("UncompressBlockWithDict(src %d, dst %d, dict %d) modified dst[len+%d] (spare capacity)", len(src), dl, len(dict), bad), det(plName))
			}
			if !bytes.Equal(s, src) || (dict != nil && !bytes.Equal(d, dict)) {
				if ds.mode != "C12" {
					c.ViolationAs("C03", "input-modified", "src or dict bytes changed by the decoder", det(plName))
				}
			}
		}
		// C04 judgement
		if ds.mode == "C04" || ds.mode == "C03" {
			switch {
			case verdict == ref.EmptyInput:
			case verdict.Accept():
				if err == nil && n >= 0 && n <= dl {
					if !bytes.Equal(dst[:n], want) {
						c.ViolationAs("C04", "wrong-bytes", fmt.Sprintf("decoded %d bytes differ from the format's definition (%d bytes) for a %s block (src %d, dst %d, dict %d)", n, len(want), verdict, len(src), dl, len(dict)), det(plName))
					}
				} else if verdict == ref.Strict && err != nil {
					c.ViolationAs("C04", "valid-block-rejected", fmt.Sprintf("strictly valid block (decodes to %d bytes, dst %d, dict %d) rejected: %v", len(want), dl, len(dict), err), det(plName))
				}
			case verdict.MustReject():
				if err == nil {
					c.ViolationAs("C04", "invalid-block-accepted/"+verdict.String(), fmt.Sprintf("block the format rejects (%s) accepted with n=%d (src %d, dst %d, dict %d)", verdict, n, len(src), dl, len(dict)), det(plName))
				}
			}
		}
	}
	// Same block, dictionary, destination length AND prior destination contents (placements 0 and 2
	// both start from the 0xA5 fill), different memory around the buffers: if the outputs differ, the
	// decoder's result depends on memory outside the three slices, i.e. it read out of bounds even
	// though no guard page was hit.
	if ds.mode != "C12" && outs[0].ok && outs[2].ok && !outs[0].fault && !outs[2].fault && outs[0] != outs[2] {
		c.ViolationAs("C03", "output-depends-on-memory-outside-the-slices", fmt.Sprintf("same block/dict/len(dst)=%d and same prior destination contents: guard-page placement gives %v, heap placement gives %v", dl, outs[0], outs[2]), det(""))
	}
	// results must not depend on placement or on the destination's prior contents
	for pl := 1; pl < nplace; pl++ {
		if outs[pl] != outs[0] && !outs[pl].fault && !outs[0].fault {
			if ds.mode != "C12" {
				c.ViolationAs("C04", "result-depends-on-destination", fmt.Sprintf("same block/dict/len(dst)=%d: placement 0 gives %v, placement %d gives %v", dl, outs[0], pl, outs[pl]), det(""))
			}
			break
		}
	}
	if ds.res != nil {
		var rec [32]byte
		binary.LittleEndian.PutUint64(rec[0:], uint64(i))
		binary.LittleEndian.PutUint32(rec[8:], *sub)
		binary.LittleEndian.PutUint32(rec[12:], uint32(int32(outs[2].n)))
		if outs[2].ok {
			rec[16] = 1
		}
		if outs[2].fault {
			rec[16] = 2
		}
		if !outs[2].ok {
			binary.LittleEndian.PutUint32(rec[12:], 0)
		}
		binary.LittleEndian.PutUint64(rec[24:], outs[2].hash)
		ds.resBuf = append(ds.resBuf, rec[:]...)
		if len(ds.resBuf) >= 1<<20 {
			ds.res.Write(ds.resBuf)
			ds.resBuf = ds.resBuf[:0]
		}
	}
	// evidence: class cell = (generator class, reference verdict, library outcome, features)
	outc := "err"
	if outs[0].fault {
		outc = "fault"
	} else if outs[0].ok {
		outc = "ok"
	}
	feat := ""
	if st.DictMatches > 0 {
		feat += "+dict"
	}
	if st.Straddle > 0 {
		feat += "+straddle"
	}
	if st.Overlap > 0 {
		feat += "+overlap"
	}
	if st.LongLit > 0 || st.LongMatch > 0 {
		feat += "+long"
	}
	c.Cell(fmt.Sprintf("%s/%s/%s/dictlen=%s%s", class, verdict, outc, dictBucket(len(dict)), feat))
	if st.Matches > 0 {
		c.Count("blocks_with_matches_decoded", 1)
	}
}

func dictBucket(n int) string {
	switch {
	case n == 0:
		return "0"
	case n < 65535:
		return "small"
	default:
		return ">=65535"
	}
}

func dstLens(g *prng.Rng, full, tail int) []int {
	ls := []int{full, full - 1, full + g.Pick(1, 2, 15, 16, 17, 31, 32, 33, 47, 48, 100)}
	if tail > 0 {
		ls = append(ls, full-tail)
	}
	if g.N(4) == 0 {
		ls = append(ls, full-g.Pick(2, 3, 4, 8, 16, 17, 18, 19, 32), g.N(60))
	}
	out := ls[:0]
	for _, l := range ls {
		if l >= 0 {
			out = append(out, l)
		}
	}
	return out
}

func makeDict(g *prng.Rng, n int) []byte {
	if n == 0 {
		if g.Bool() {
			return nil
		}
		return []byte{}
	}
	ds.dictGen++
	return g.Bytes(n)
}

func decCase(c *Ctx, i int64) {
	p := decPlanFor(c)
	g := c.Rng(i)
	var sub uint32
	switch {
	case i < p.nStruct:
		lci, oc := int(i)/gen.NumOffClasses, int(i)%gen.NumOffClasses
		lc := gen.GLit[lci]
		dlist := []int{0, 20}
		if oc == gen.OffDictStart || oc == gen.OffBeforeDict || oc == gen.Off65535 || oc == gen.OffDiPlus1 || c.Tier == "thorough" {
			dlist = append(dlist, 65536)
		}
		if oc == gen.Off65535 {
			dlist = append(dlist, 65535, 70000)
		}
		for _, dlen := range dlist {
			dict := makeDict(g, dlen)
			for _, lead := range []int{0, 20} {
				for _, mc := range gen.GMatch {
					for _, tail := range gen.GTail {
						blk := gen.Structured(g, lead, lc, oc, mc, tail, dlen)
						full, _, _ := ref.DecodeBlock(blk, dict, 1<<20)
						for _, dl := range dstLens(g, len(full), tail) {
							decodeOne(c, i, &sub, blk, dict, dl, "grammar")
						}
					}
				}
			}
		}
		if i%37 == 0 {
			c.Sample(map[string]interface{}{"kind": "grammar", "literal_class": lc, "offset_class": gen.OffClassNames[oc], "match_classes": len(gen.GMatch), "tail_classes": len(gen.GTail), "dict_lengths": dlist, "triples": sub})
		}
		return
	}
	i2 := i - p.nStruct
	switch {
	case i2 < p.nValid:
		// valid compressed blocks into every destination length around the true size
		data, cl := gen.DrawSource(g, c.Repo, 3000)
		if g.N(3) == 0 {
			data = gen.LZBuilt(g, 200+g.N(2000))
		}
		buf := make([]byte, lz4.CompressBlockBound(len(data)))
		var n int
		if g.Bool() {
			n, _ = lz4.CompressBlock(data, buf, nil)
		} else {
			n, _ = lz4.CompressBlockHC(data, buf, lz4.CompressionLevel(g.Pick(0, 1, 16, 512)), nil, nil)
		}
		blk := buf[:n]
		lo, hi := 0, len(data)+2
		if len(data) > 300 {
			lo = len(data) - 70
		}
		for dl := lo; dl <= hi; dl++ {
			decodeOne(c, i, &sub, blk, nil, dl, "compressed-"+cl.Name)
		}
	case i2 < p.nValid+p.nMut:
		var base []byte
		var dict []byte
		if g.Bool() {
			data, _ := gen.DrawSource(g, c.Repo, 600)
			buf := make([]byte, lz4.CompressBlockBound(len(data)))
			n, _ := lz4.CompressBlock(data, buf, nil)
			base = buf[:n]
		} else {
			dict = makeDict(g, gen.GDict[g.N(5)])
			base = gen.RandomBlock(g, len(dict))
		}
		for k := 0; k < 48; k++ {
			m, how := gen.Mutate(g, base)
			if g.N(4) == 0 {
				m, _ = gen.Mutate(g, m)
			}
			if len(m) == 0 {
				continue
			}
			full, _, _ := ref.DecodeBlock(m, dict, 1<<20)
			for _, dl := range dstLens(g, len(full), 0) {
				decodeOne(c, i, &sub, m, dict, dl, "mutant-"+how)
			}
		}
	case i2 < p.nValid+p.nMut+p.nTok:
		for k := 0; k < 64; k++ {
			blk := gen.TokenBiased(g)
			dict := makeDict(g, g.Pick(0, 0, 5, 100))
			full, _, _ := ref.DecodeBlock(blk, dict, 1<<20)
			for _, dl := range dstLens(g, len(full), 0) {
				decodeOne(c, i, &sub, blk, dict, dl, "random-bytes")
			}
		}
	case i2 < p.nValid+p.nMut+p.nTok+p.nRand:
		dict := makeDict(g, gen.GDict[g.N(len(gen.GDict))])
		for k := 0; k < 40; k++ {
			blk := gen.RandomBlock(g, len(dict))
			full, _, _ := ref.DecodeBlock(blk, dict, 1<<20)
			for _, dl := range dstLens(g, len(full), g.Pick(0, 0, 5, 16, 18, 48)) {
				decodeOne(c, i, &sub, blk, dict, dl, "random-grammar")
			}
		}
	default:
		if i == decPlanFor(c).total()-1 {
			decHugeLengths(c, i, &sub)
			return
		}
		decDegenerate(c, i, &sub)
	}
}

// decHugeLengths: length codes that add up to 2^32 and more (16.8 million continuation bytes of 255).
// Such a block asks for more output than any destination here holds: it must be rejected, by both
// decoders; a length accumulated in 32 bits wraps to a small number and the block is accepted.
// Heap buffers only (the block does not fit the guard-page arenas); the destination has a canary.
func decHugeLengths(c *Ctx, i int64, sub *uint32) {
	const nFF = (1<<32)/255 + 1 // 255*nFF = 2^32 + 15 (so 15+255*nFF and 19+255*nFF are just above 2^32)
	ff := bytes.Repeat([]byte{0xFF}, nFF)
	tailLit := []byte{0x50, 'v', 'w', 'x', 'y', 'z'} // final literal-only sequence
	for _, rem := range []byte{0, 1, 7, 40, 200} {
		for kind := 0; kind < 2; kind++ {
			var blk []byte
			name := "literal-length"
			if kind == 0 {
				// literal length 15 + 255*nFF + rem, then some literal bytes (far fewer than announced)
				blk = append([]byte{0xF0}, ff...)
				blk = append(blk, rem)
				blk = append(blk, bytes.Repeat([]byte{'L'}, 64)...)
			} else {
				name = "match-length"
				// 8 literals, offset 4, match length 4 + 15 + 255*nFF + rem; then a well-formed end
				blk = append([]byte{0x8F}, []byte("abcdefgh")...)
				blk = append(blk, 4, 0)
				blk = append(blk, ff...)
				blk = append(blk, rem)
				blk = append(blk, tailLit...)
			}
			for _, dl := range []int{64, 300, 70000} {
				*sub++
				back := make([]byte, dl+160)
				mon.CanaryFill(back, 0xA5)
				dst := back[80 : 80+dl]
				var n int
				var err error
				fault := mon.CallGuarded(func() { n, err = lz4.UncompressBlock(blk, dst) })
				c.Count("decode_calls", 1)
				c.Count("huge_length_code_calls", 1)
				detail := map[string]interface{}{"kind": name, "continuation_bytes": nFF, "last_length_byte": rem, "dst_len": dl, "src_len": len(blk)}
				if ds.mode == "C12" {
					continue
				}
				switch {
				case fault.Panicked:
					c.ViolationAs("C03", "panic/huge-length-code", fmt.Sprintf("UncompressBlock panics on a block whose %s adds up to more than 2^32: %s", name, fault.Msg), detail)
				case err == nil:
					c.ViolationAs("C04", "invalid-block-accepted/output-too-large/length-over-2^32", fmt.Sprintf("a block whose %s adds up to more than 2^32 bytes is accepted with n=%d for a %d-byte destination", name, n, dl), detail)
				default:
					if bad := mon.CanaryCheckRange(back, 0xA5, 80+dl, len(back)); bad >= 0 {
						c.ViolationAs("C03", "write-beyond-len", fmt.Sprintf("UncompressBlock modified dst[len+%d] while rejecting a block with a length over 2^32", bad), detail)
					} else if mon.CanaryCheckRange(back, 0xA5, 0, 80) >= 0 {
						c.ViolationAs("C03", "write-before-dst", "UncompressBlock modified memory in front of dst while rejecting a block with a length over 2^32", detail)
					}
				}
				c.Cell(fmt.Sprintf("huge-length/%s/rem%d/dst%d", name, rem, dl))
			}
		}
	}
}

// decDegenerate: nil and empty-non-nil slices in every position (heap only:
// these are exactly the values a caller can pass).
func decDegenerate(c *Ctx, i int64, sub *uint32) {
	g := c.Rng(i)
	srcs := [][]byte{nil, {}, {0x00}, {0x10, 'a'}, {0x10}, {0xF0}, {0x0F, 0, 0}, {0x00, 0x00}}
	// valid literal-only and match-bearing blocks of >= 18 bytes
	long := gen.AppendSeq(nil, g, 30, 0, 0)
	srcs = append(srcs, long)
	m := gen.AppendSeq(nil, g, 8, 4, 12)
	m = gen.AppendSeq(m, g, 20, 0, 0)
	srcs = append(srcs, m, gen.TokenBiased(g), bytes.Repeat([]byte{0x11}, 40), bytes.Repeat([]byte{0}, 40))
	dsts := []struct {
		name string
		b    []byte
	}{{"nil", nil}, {"empty", []byte{}}, {"empty-cap", make([]byte, 0, 64)}, {"one", make([]byte, 1)}}
	dicts := [][]byte{nil, {}, []byte("dictionary")}
	for _, s := range srcs {
		for _, d := range dsts {
			for _, dict := range dicts {
				*sub++
				var n int
				var err error
				dst := d.b
				fault := mon.CallGuarded(func() { n, err = lz4.UncompressBlockWithDict(s, dst, dict) })
				c.Count("decode_calls", 1)
				c.Count("degenerate_calls", 1)
				detail := map[string]interface{}{"src": hexs(s), "src_nil": s == nil, "dst": d.name, "dict_nil": dict == nil, "dictlen": len(dict)}
				if fault.Panicked {
					key := "panic/degenerate"
					if fault.IsFault {
						key = "memory-fault/degenerate-dst-" + d.name
					}
					if ds.mode != "C12" {
						c.ViolationAs("C03", key, fmt.Sprintf("UncompressBlockWithDict(src %d bytes, dst %s, dict %d): %s", len(s), d.name, len(dict), fault.Msg), detail)
					}
					continue
				}
				if err == nil && (n < 0 || n > len(dst)) && ds.mode != "C12" {
					c.ViolationAs("C03", "count-out-of-range", fmt.Sprintf("degenerate call returned n=%d for len(dst)=%d", n, len(dst)), detail)
				}
				c.Cell(fmt.Sprintf("degenerate/src=%s/dst=%s/dict=%s", lenClass(s), d.name, lenClass(dict)))
			}
		}
	}
}

func lenClass(b []byte) string {
	switch {
	case b == nil:
		return "nil"
	case len(b) == 0:
		return "empty"
	case len(b) < 18:
		return "<18"
	default:
		return ">=18"
	}
}
