package main

import (
	"bytes"
	"fmt"
	"syscall"

	lz4 "github.com/pierrec/lz4/v4"

	"verif/internal/prng"
	"verif/internal/ref"
)

// C13 – the library's XXH32 (one-shot and streaming, exported under the verif
// tag) against the reference, over every carry-buffer state and around 2^32.

var c13L1 = func() []int {
	var v []int
	for i := 0; i <= 49; i++ {
		v = append(v, i)
	}
	return append(v, 63, 64, 65, 4095, 4096, 4097)
}()

const (
	c13OneShotLens = 1025 // lengths 0..1024
)

// c13FrameCases: the checksums as the frame layer uses them (header byte, block checksums over the
// stored bytes, content checksum over the content): sizes around the block size x {Write, small
// Writes, ReadFrom} x concurrency {1, 4} x {one frame, second frame of a reused Writer}.
const c13FrameCases = 48

func c13Frame(c *Ctx, i int64, k int) {
	g := c.Rng(i)
	const bs = 65536
	n := []int{0, 1, 15, 16, 17, bs - 1, bs, bs + 1, 2 * bs, 2*bs + 5, 3 * bs, 3*bs + 4096}[k%12]
	delivery := (k / 12) % 2 // 0 Write (one call or 1000-byte calls), 1 ReadFrom
	conc := []int{1, 4}[(k/24)%2]
	data := mixData(g, n)
	var sinks [2]bytes.Buffer
	var failed error
	if c.Guard("Writer", func() {
		w := lz4.NewWriter(&sinks[0])
		if err := w.Apply(lz4.BlockSizeOption(lz4.Block64Kb), lz4.BlockChecksumOption(true), lz4.ChecksumOption(true), lz4.ConcurrencyOption(conc)); err != nil {
			failed = err
			return
		}
		for f := 0; f < 2 && failed == nil; f++ {
			if f == 1 {
				w.Reset(&sinks[1])
			}
			switch {
			case delivery == 1:
				_, failed = w.ReadFrom(bytes.NewReader(data))
			case k%2 == 0:
				_, failed = w.Write(data)
			default:
				for p := 0; p < len(data) && failed == nil; p += 1000 {
					e := p + 1000
					if e > len(data) {
						e = len(data)
					}
					_, failed = w.Write(data[p:e])
				}
			}
			if failed == nil {
				failed = w.Close()
			}
		}
	}) {
		return
	}
	if failed != nil {
		c.Violation("frame/writer-call-failed", failed.Error(), nil)
		return
	}
	for f := 0; f < 2; f++ {
		c.Count("frames_checked_for_checksums", 1)
		pf, err := ref.ParseFrame(sinks[f].Bytes(), ref.ParseOpts{})
		if fe, ok := err.(*ref.FrameError); ok && (fe.Kind == ref.ErrBlockChecksum || fe.Kind == ref.ErrContentChecksum || fe.Kind == ref.ErrHeaderChecksum) {
			c.Violation("frame-checksum-wrong/"+fe.Kind.String(), fmt.Sprintf("frame %d of a Writer (concurrency %d, %s, %d bytes): %v", f+1, conc, []string{"Write", "ReadFrom"}[delivery], n, err), map[string]interface{}{"n": n, "conc": conc, "delivery": delivery, "frame_no": f + 1})
		} else if err == nil && !bytes.Equal(pf.Content, data) {
			c.Count("frames_with_other_content_not_judged_here", 1)
		}
		c.Cell(fmt.Sprintf("frame-usage/n=%d/delivery%d/conc%d/frame%d", n, delivery, conc, f+1))
	}
}

func c13Counts(c *Ctx) (nA, nB, nC, nD, nE int64) {
	nA = c13OneShotLens
	nB = 16 * int64(len(c13L1))
	nC = 600
	nD = 2
	if c.Tier == "thorough" {
		nC = 6000
		nD = 4
		nE = 33 + 1
	}
	return
}

func init() {
	register("C13", &PropDef{
		Total: func(c *Ctx) int64 {
			a, b, cc, d, e := c13Counts(c)
			return a + b + cc + d + c13FrameCases + e
		},
		Run: c13Run,
	})
}

func fillKind(b []byte, kind int, g *prng.Rng) {
	switch kind {
	case 0:
		for i := range b {
			b[i] = 0
		}
	case 1:
		for i := range b {
			b[i] = 0xFF
		}
	case 2:
		for i := range b {
			b[i] = byte(i)
		}
	default:
		g.Fill(b)
	}
}

func c13Run(c *Ctx, i int64) {
	nA, nB, nC, nD, _ := c13Counts(c)
	switch {
	case i < nA:
		c13OneShot(c, i, int(i))
	case i < nA+nB:
		j := i - nA
		c13Stream(c, i, int(j)/len(c13L1), c13L1[int(j)%len(c13L1)])
	case i < nA+nB+nC:
		c13Random(c, i)
	case i < nA+nB+nC+nD:
		c13Boundary(c, i, int(i-nA-nB-nC))
	case i < nA+nB+nC+nD+c13FrameCases:
		c13Frame(c, i, int(i-nA-nB-nC-nD))
	default:
		c13Huge(c, i, int(i-nA-nB-nC-nD-c13FrameCases))
	}
}

func c13OneShot(c *Ctx, i int64, n int) {
	g := c.Rng(i)
	back := make([]byte, n+8)
	for kind := 0; kind < 4; kind++ {
		for align := 0; align < 4; align++ {
			b := back[align : align+n]
			fillKind(b, kind, g)
			want := ref.XXH32(b)
			var got uint32
			if c.Guard("ChecksumZero", func() { got = lz4.VerifChecksumZero(b) }) {
				return
			}
			c.Count("oneshot_calls", 1)
			if got != want {
				c.Violation("oneshot/mismatch", fmt.Sprintf("ChecksumZero(len %d kind %d align %d) = %08x, reference %08x", n, kind, align, got, want),
					map[string]interface{}{"len": n, "kind": kind, "data": hexs(b)})
			}
			// the streaming object fed in one write must agree too
			var x lz4.VerifXXH32
			x.Write(b)
			if s := x.Sum32(); s != want {
				c.Violation("stream/single-write", fmt.Sprintf("streaming single write len %d: %08x, reference %08x", n, s, want), map[string]interface{}{"len": n, "kind": kind})
			}
		}
	}
	c.Cell(fmt.Sprintf("oneshot/len%%16=%d/stripes=%s", n%16, bucket(n/16)))
	if n < 3 {
		c.Sample(map[string]interface{}{"kind": "oneshot", "len": n})
	}
}

func bucket(n int) string {
	switch {
	case n == 0:
		return "0"
	case n == 1:
		return "1"
	case n < 4:
		return "2-3"
	case n < 64:
		return "4-63"
	case n < 4096:
		return "64-4095"
	case n < 1<<16:
		return "4K-64K"
	case n < 1<<20:
		return "64K-1M"
	default:
		return ">=1M"
	}
}

// c13Stream: carry buffer filled to m bytes (reached in one or two writes),
// then a write of l1, then every l2 in 0..33, with Sum32/Sum probes.
func c13Stream(c *Ctx, i int64, m, l1 int) {
	g := c.Rng(i)
	data := g.Bytes(16 + 16 + l1 + 40)
	for pre := 0; pre < 2; pre++ { // pre=1: a full stripe was absorbed before
		for l2 := 0; l2 <= 33; l2++ {
			var x lz4.VerifXXH32
			var r ref.XXH32State
			r.Reset()
			if pre == 1 && l2%2 == 1 {
				x.Reset() // explicit Reset must equal the zero value
			}
			p := 0
			w := func(n int, what string) bool {
				seg := data[p : p+n]
				p += n
				var k int
				var err error
				if c.Guard("XXHZero.Write", func() { k, err = x.Write(seg) }) {
					return false
				}
				r.Write(seg)
				c.Count("stream_writes", 1)
				if err != nil {
					c.Violation("stream/write-error", fmt.Sprintf("Write returned %v", err), nil)
				}
				_ = k
				want := r.Sum32()
				s1 := x.Sum32()
				s2 := x.Sum32()
				app := x.Sum([]byte{0xAA})
				if s1 != want || s2 != want {
					c.Violation("stream/mismatch", fmt.Sprintf("carry=%d pre=%d l1=%d l2=%d after %s: Sum32 %08x/%08x, reference %08x", m, pre, l1, l2, what, s1, s2, want),
						map[string]interface{}{"carry": m, "pre": pre, "l1": l1, "l2": l2, "step": what})
					return false
				}
				if len(app) != 5 || app[0] != 0xAA || uint32(app[1])|uint32(app[2])<<8|uint32(app[3])<<16|uint32(app[4])<<24 != want {
					c.Violation("stream/sum-append", fmt.Sprintf("Sum(b) appended %x, reference %08x little-endian", app, want), nil)
					return false
				}
				return true
			}
			if pre == 1 {
				if !w(16, "stripe") {
					return
				}
			}
			if m > 0 {
				if !w(m, "carry") {
					return
				}
			} else if l2%3 == 0 {
				if !w(0, "empty") {
					return
				}
			}
			if !w(l1, "l1") || !w(l2, "l2") {
				return
			}
			// Reset and reuse must give the hash of the new data only.
			x.Reset()
			if got, want := x.Sum32(), ref.XXH32(nil); got != want {
				c.Violation("stream/reset-then-sum", fmt.Sprintf("Reset after %d bytes then Sum32 without a write: %08x, reference (empty input) %08x", p, got, want), nil)
				return
			}
			x.Write(data[:l2])
			if got, want := x.Sum32(), ref.XXH32(data[:l2]); got != want {
				c.Violation("stream/reset-reuse", fmt.Sprintf("after Reset, %d bytes: %08x, reference %08x", l2, got, want), nil)
				return
			}
		}
	}
	c.Cell(fmt.Sprintf("stream/carry=%d/l1=%s", m, l1class(l1)))
	if m == 7 && l1 == 9 {
		c.Sample(map[string]interface{}{"kind": "stream", "carry": m, "l1": l1, "l2": "0..33", "probes": "Sum32 twice + Sum after every write"})
	}
}

func l1class(l int) string {
	switch {
	case l == 0:
		return "0"
	case l < 16:
		return fmt.Sprintf("%d", l)
	case l < 32:
		return "16-31"
	case l < 50:
		return "32-49"
	case l < 100:
		return "63-65"
	default:
		return "4095-4097"
	}
}

func c13Random(c *Ctx, i int64) {
	g := c.Rng(i)
	var n int
	switch g.N(4) {
	case 0:
		n = g.N(200)
	case 1:
		n = g.N(70000)
	case 2:
		n = g.N(1 << 20)
	default:
		n = g.N(8 << 20)
	}
	if c.Tier == "quick" && n > 2<<20 {
		n = n % (2 << 20)
	}
	b := make([]byte, n)
	fillKind(b, 3, g)
	want := ref.XXH32(b)
	if got := lz4.VerifChecksumZero(b); got != want {
		c.Violation("oneshot/mismatch", fmt.Sprintf("ChecksumZero(random, len %d) = %08x, reference %08x", n, got, want), map[string]interface{}{"len": n})
	}
	var x lz4.VerifXXH32
	p := 0
	writes := 0
	for p < n {
		k := g.Pick(0, 1, 2, 3, 4, 7, 15, 16, 17, 31, 32, 33, 64, 100, 1000, 4096, 65536, 1<<20)
		if k > n-p {
			k = n - p
		}
		x.Write(b[p : p+k])
		p += k
		writes++
		if g.N(4) == 0 {
			if got, w := x.Sum32(), ref.XXH32(b[:p]); got != w {
				c.Violation("stream/mismatch", fmt.Sprintf("random partition: after %d bytes in %d writes Sum32 %08x, reference %08x", p, writes, got, w), map[string]interface{}{"len": p})
				return
			}
		}
	}
	if got := x.Sum32(); got != want {
		c.Violation("stream/mismatch", fmt.Sprintf("random partition: %d bytes in %d writes Sum32 %08x, reference %08x", n, writes, got, want), map[string]interface{}{"len": n})
	}
	c.Count("stream_writes", int64(writes))
	c.Cell("random/len=" + bucket(n) + "/writes=" + bucket(writes))
}

// c13Boundary streams 2^32-16 bytes once, then probes every total length
// 2^32-16 .. 2^32+16 by copying the (value-type) state.
func c13Boundary(c *Ctx, i int64, which int) {
	chunk := []int{1 << 20, 65521, 4096, 1<<20 + 7}[which]
	g := c.Rng(i)
	buf := g.Bytes(chunk)
	var x lz4.VerifXXH32
	var r ref.XXH32State
	r.Reset()
	target := uint64(1)<<32 - 16
	var done uint64
	for done < target {
		n := uint64(chunk)
		if n > target-done {
			n = target - done
		}
		x.Write(buf[:n])
		r.Write(buf[:n])
		done += n
	}
	tail := g.Bytes(33)
	for k := 0; k <= 32; k++ {
		xx := x // value copy
		rr := r
		xx.Write(tail[:k])
		rr.Write(tail[:k])
		got, want := xx.Sum32(), rr.Sum32()
		total := target + uint64(k)
		c.Count("boundary_probes", 1)
		c.Cell(fmt.Sprintf("boundary/chunk=%d/total=2^32%+d", chunk, int64(total)-(1<<32)))
		if got != want {
			key := "stream/len>=2^32"
			if total < 1<<32 {
				key = "stream/mismatch"
			}
			c.Violation(key, fmt.Sprintf("streaming total %d (2^32%+d), chunk %d: Sum32 %08x, reference %08x", total, int64(total)-(1<<32), chunk, got, want),
				map[string]interface{}{"total": total, "chunk": chunk})
		}
		// split the last k bytes in two writes as well
		if k >= 2 {
			xx = x
			xx.Write(tail[:1])
			xx.Write(tail[1:k])
			if got2 := xx.Sum32(); got2 != want {
				key := "stream/len>=2^32"
				if total < 1<<32 {
					key = "stream/mismatch"
				}
				c.Violation(key, fmt.Sprintf("streaming total %d split tail: Sum32 %08x, reference %08x", total, got2, want), map[string]interface{}{"total": total, "chunk": chunk})
			}
		}
		// a write that ends exactly on 2^32, then the rest (one write, and byte by byte)
		if k >= 16 {
			for v := 0; v < 2; v++ {
				xx = x
				xx.Write(tail[:16])
				if v == 0 {
					xx.Write(tail[16:k])
				} else {
					for j := 16; j < k; j++ {
						xx.Write(tail[j : j+1])
					}
				}
				c.Count("boundary_probes_write_ending_on_2^32", 1)
				if got3 := xx.Sum32(); got3 != want {
					c.Violation("stream/len>=2^32", fmt.Sprintf("streaming total %d with a write ending exactly on 2^32 and %d more bytes after it: Sum32 %08x, reference %08x", total, k-16, got3, want), map[string]interface{}{"total": total, "chunk": chunk})
				}
			}
		}
	}
	c.Sample(map[string]interface{}{"kind": "boundary", "chunk": chunk, "totals": "2^32-16 .. 2^32+16"})
}

// c13Huge (thorough): the one-shot function on a real buffer of 2^32-16+k
// bytes (a private zero mapping with a few touched pages, so it costs no RAM).
func c13Huge(c *Ctx, i int64, k int) {
	if k == 33 {
		c13WriterHuge(c, i)
		return
	}
	n := int(uint64(1)<<32 - 16 + uint64(k))
	m, err := syscall.Mmap(-1, 0, n+4096, syscall.PROT_READ|syscall.PROT_WRITE, syscall.MAP_ANON|syscall.MAP_PRIVATE|syscall.MAP_NORESERVE)
	if err != nil {
		c.Count("huge_skipped_mmap", 1)
		return
	}
	defer syscall.Munmap(m)
	g := c.Rng(i)
	b := m[:n]
	for _, p := range []int{0, 1, 15, 16, 4095, n / 2, n - 40, n - 17, n - 16, n - 15, n - 4, n - 1} {
		b[p] = byte(g.Next()) | 1
	}
	var r ref.XXH32State
	r.Reset()
	r.Write(b)
	want := r.Sum32()
	got := lz4.VerifChecksumZero(b)
	c.Count("huge_oneshot", 1)
	c.Cell(fmt.Sprintf("huge-oneshot/len=2^32%+d", int64(n)-(1<<32)))
	if got != want {
		c.Violation("oneshot/len>=2^32", fmt.Sprintf("ChecksumZero(len %d) = %08x, reference %08x", n, got, want), map[string]interface{}{"len": n})
	}
}

type tailSink struct {
	last [8]byte
	n    uint64
}

func (t *tailSink) Write(p []byte) (int, error) {
	t.n += uint64(len(p))
	if len(p) >= 8 {
		copy(t.last[:], p[len(p)-8:])
	} else {
		copy(t.last[:], t.last[len(p):])
		copy(t.last[8-len(p):], p)
	}
	return len(p), nil
}

// c13WriterHuge: content checksum trailer of a Writer fed 2^32+5 bytes.
func c13WriterHuge(c *Ctx, i int64) {
	total := uint64(1)<<32 + 5
	sink := &tailSink{}
	w := lz4.NewWriter(sink)
	if err := w.Apply(lz4.ChecksumOption(true), lz4.BlockSizeOption(lz4.Block4Mb)); err != nil {
		c.Violation("writer-huge/apply", err.Error(), nil)
		return
	}
	chunk := make([]byte, 4<<20)
	for j := range chunk {
		chunk[j] = byte(j >> 12)
	}
	var r ref.XXH32State
	r.Reset()
	var done uint64
	for done < total {
		n := uint64(len(chunk))
		if n > total-done {
			n = total - done
		}
		if _, err := w.Write(chunk[:n]); err != nil {
			c.Violation("writer-huge/write", err.Error(), nil)
			return
		}
		r.Write(chunk[:n])
		done += n
	}
	if err := w.Close(); err != nil {
		c.Violation("writer-huge/close", err.Error(), nil)
		return
	}
	want := r.Sum32()
	got := uint32(sink.last[4]) | uint32(sink.last[5])<<8 | uint32(sink.last[6])<<16 | uint32(sink.last[7])<<24
	c.Count("writer_huge", 1)
	c.Cell("writer-trailer/len=2^32+5")
	if got != want || sink.last[0]|sink.last[1]|sink.last[2]|sink.last[3] != 0 {
		c.Violation("stream/len>=2^32", fmt.Sprintf("Writer content checksum for %d bytes: trailer %x, reference %08x", total, sink.last, want), map[string]interface{}{"total": total})
	}
}
