package main

import (
	"bytes"
	"fmt"
	"sort"

	"verif/internal/gen"
	"verif/internal/ref"
)

// C06 – truncated frames are never presented as complete.

var c06Seeds []seedFrame

const c06Residues = 16

func init() {
	register("C06", &PropDef{
		Setup: func(c *Ctx) {
			gen.LoadTexts(c.Repo)
			c06Seeds = buildSeeds(c, true)
		},
		Total: func(c *Ctx) int64 { return int64(len(c06Seeds)) * c06Residues },
		Run:   c06Case,
	})
}

// posClass names where a cut of length L falls in the frame.
func posClass(pf *ref.Frame, L int) (string, bool) {
	for _, fl := range pf.Fields {
		if L == fl.Off+fl.Len {
			return "after-" + fl.Name, true
		}
		if L > fl.Off && L < fl.Off+fl.Len {
			return "inside-" + fl.Name, false
		}
	}
	return "elsewhere", false
}

func c06Cuts(c *Ctx, s *seedFrame, i int64) []int {
	n := len(s.frame)
	if !s.large {
		cuts := make([]int, 0, n)
		for L := 1; L < n; L++ {
			cuts = append(cuts, L)
		}
		return cuts
	}
	set := map[int]bool{}
	for _, fl := range s.pf.Fields {
		for d := -3; d <= 3; d++ {
			for _, p := range []int{fl.Off + d, fl.Off + fl.Len + d} {
				if p >= 1 && p < n {
					set[p] = true
				}
			}
		}
	}
	g := c.Rng(int64(len(s.frame)), 0xC06)
	k := 200
	if c.Tier == "thorough" {
		k = 3000
	}
	for j := 0; j < k; j++ {
		set[1+g.N(n-1)] = true
	}
	cuts := make([]int, 0, len(set))
	for p := range set {
		cuts = append(cuts, p)
	}
	sort.Ints(cuts)
	return cuts
}

func c06Case(c *Ctx, i int64) {
	s := &c06Seeds[i/c06Residues]
	r := int(i % c06Residues)
	g := c.Rng(i)
	cuts := c06Cuts(c, s, i)
	// legacy: cuts on a block boundary are legitimate ends
	boundary := map[int]int{} // cut -> decoded bytes up to there
	if s.pf.Legacy {
		boundary[s.pf.Start+4] = 0
		for _, b := range s.pf.Blocks {
			boundary[b.DataOff+b.Size] = b.DecOff + b.DecLen
		}
	}
	concs := []int{1, 2, 4}
	modes := []int{rdWriteTo, rdSmall, rdBlock}
	for ci, L := range cuts {
		if ci%c06Residues != r {
			continue
		}
		if s.pf.Skippable > 0 && L == s.pf.Start {
			// complete skippable frame(s) followed by nothing: a legitimately complete (empty) stream
			continue
		}
		prefix := s.frame[:L]
		cls, _ := posClass(s.pf, L)
		for _, conc := range concs {
			for _, mode := range modes {
				if s.large && (conc == 2 || mode == rdSmall) && ci%3 != 0 {
					continue
				}
				rr := readStream(c, prefix, conc, mode, s.cfg.blockMax(), g, gen.ReadPlain)
				c.Count("prefix_reads", 1)
				if rr.panicky {
					continue
				}
				det := func() map[string]interface{} {
					return map[string]interface{}{"seed": s.name, "frame_len": len(s.frame), "cut": L, "position": cls, "reader_conc": conc, "read_mode": rdNames[mode], "err": fmt.Sprint(rr.err), "delivered": len(rr.out), "frame": hexs(head(s.frame, 300))}
				}
				if want, ok := boundary[L]; ok && s.pf.Legacy {
					// a legacy stream legitimately ends at a block boundary
					if rr.err == nil && (len(rr.out) != want || !bytes.Equal(rr.out, s.input[:want])) {
						c.Violation("legacy-boundary-wrong-content", fmt.Sprintf("legacy frame cut on a block boundary (%d): %d bytes delivered, %d expected", L, len(rr.out), want), det())
					}
					c.Cell(fmt.Sprintf("%s/legacy-boundary/conc%d/%s", s.name, conc, rdNames[mode]))
					continue
				}
				if rr.err == nil {
					mc := "seq"
					if conc > 1 {
						mc = "conc"
					}
					kind := "modern"
					if s.pf.Legacy {
						kind = "legacy"
					}
					c.Violation("truncated-frame-clean-eof/"+kind+"/"+cls+"/"+mc, fmt.Sprintf("frame %q cut to %d of %d bytes (%s) is read to a clean end of stream by Reader(conc %d, %s), %d bytes delivered", s.name, L, len(s.frame), cls, conc, rdNames[mode], len(rr.out)), det())
				}
				if len(rr.out) > len(s.input) || !bytes.Equal(rr.out, s.input[:len(rr.out)]) {
					c.Violation("delivered-bytes-not-a-prefix", fmt.Sprintf("frame %q cut to %d bytes: the %d delivered bytes are not a prefix of the content", s.name, L, len(rr.out)), det())
				}
				c.Cell(fmt.Sprintf("%s/%s/conc%d/%s", s.name, cls, conc, rdNames[mode]))
			}
		}
	}
	if r == 0 {
		c.Sample(map[string]interface{}{"seed": s.name, "frame_len": len(s.frame), "blocks": len(s.pf.Blocks), "cut_points": len(cuts), "large": s.large})
	}
}
