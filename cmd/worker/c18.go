package main

import (
	"bytes"
	"errors"
	"fmt"
	"io"

	lz4 "github.com/pierrec/lz4/v4"

	"verif/internal/gen"
	"verif/internal/prng"
	"verif/internal/ref"
)

// C18 – the compressing reader yields one valid frame for any read pattern.

type crSource struct {
	*gen.Source
	closed int
}

func (s *crSource) Close() error { s.closed++; return nil }

type crOpt struct {
	bs    lz4.BlockSize
	bc    bool
	cc    bool
	size  uint64
	level lz4.CompressionLevel
}

func (o crOpt) options() []lz4.Option {
	return []lz4.Option{lz4.BlockSizeOption(o.bs), lz4.BlockChecksumOption(o.bc), lz4.ChecksumOption(o.cc), lz4.SizeOption(o.size), lz4.CompressionLevelOption(o.level)}
}

func (o crOpt) cfg() ref.WriterConfig {
	return ref.WriterConfig{BlockMax: int(o.bs), BlockChecksum: o.bc, ContentChecksum: o.cc, ContentSize: o.size, NoFlush: true}
}

func (o crOpt) String() string {
	return fmt.Sprintf("bs=%dK bc=%v cc=%v size=%d level=%s", int(o.bs)>>10, o.bc, o.cc, o.size, levelName(o.level))
}

var c18Opts = []crOpt{
	{lz4.Block64Kb, false, true, 0, lz4.Fast},
	{lz4.Block64Kb, true, true, 0, lz4.Fast},
	{lz4.Block64Kb, false, false, 4242, lz4.Fast},
	{lz4.Block64Kb, true, false, 0, lz4.Level2},
	{lz4.Block256Kb, false, true, 0, lz4.Fast},
	{lz4.Block64Kb, true, true, 99, lz4.Level5},
	{lz4.Block64Kb, false, true, 0, lz4.Fast}, // size filled in by init: header checksum byte 0x00
}

func init() {
	o := &c18Opts[len(c18Opts)-1]
	o.size = hcZeroSize(o.bs, o.bc, o.cc)
}

var c18SrcLens = []int{0, 1, 100, 65535, 65536, 65537, 2 * 65536, 300 << 10}

const c18Kinds = 2 // compressible, incompressible

func c18Counts(c *Ctx) (nBase, perBase int64) {
	nBase = int64(len(c18Opts) * len(c18SrcLens) * c18Kinds)
	perBase = 8 // chunks of read-size patterns per base
	return
}

func init() {
	register("C18", &PropDef{
		Setup: func(c *Ctx) { gen.LoadTexts(c.Repo) },
		Total: func(c *Ctx) int64 { a, b := c18Counts(c); return a*b + numLevelCasesCR() },
		Run: func(c *Ctx, i int64) {
			a, b := c18Counts(c)
			if i >= a*b {
				levelCaseCR(c, i-a*b) // "reflects the applied options": the compression level
				return
			}
			c18Case(c, i)
		},
	})
}

// crRead drives one CompressingReader to its end with the given read sizes.
type crResult struct {
	frame   []byte
	err     error // nil: ended with io.EOF
	calls   int
	badCall string
	panicky bool
}

func crRead(c *Ctx, src *crSource, o crOpt, sizes func(k int) int) crResult {
	var res crResult
	res.panicky = c.Guard("CompressingReader", func() {
		zr := lz4.NewCompressingReader(src)
		if err := zr.Apply(o.options()...); err != nil {
			res.err = fmt.Errorf("Apply: %w", err)
			return
		}
		buf := make([]byte, 1<<20)
		zero := 0
		for k := 0; ; k++ {
			sz := sizes(k)
			if sz > len(buf) {
				buf = make([]byte, sz)
			}
			p := buf[:sz]
			for j := range p {
				p[j] = 0xAA
			}
			n, err := zr.Read(p)
			res.calls++
			if n < 0 || n > len(p) {
				res.badCall = fmt.Sprintf("call %d: Read(len %d) returned n=%d", k, len(p), n)
				return
			}
			if len(p) > 0 && n == 0 && err == nil {
				zero++
				if zero > 3 {
					res.badCall = fmt.Sprintf("call %d: Read(len %d) returned (0, nil): no progress", k, len(p))
					return
				}
			} else {
				zero = 0
			}
			res.frame = append(res.frame, p[:n]...)
			if err == io.EOF {
				return
			}
			if err != nil {
				res.err = err
				return
			}
			if res.calls > 4*len(res.frame)+4*src.Calls+5000 || len(res.frame) > 64<<20 {
				res.badCall = fmt.Sprintf("call %d: the reader neither ends nor fails (%d bytes so far)", k, len(res.frame))
				return
			}
		}
	})
	return res
}

func c18Case(c *Ctx, i int64) {
	_, perBase := c18Counts(c)
	base := int(i / perBase)
	chunk := int(i % perBase)
	o := c18Opts[base%len(c18Opts)]
	sl := c18SrcLens[(base/len(c18Opts))%len(c18SrcLens)]
	kind := base / (len(c18Opts) * len(c18SrcLens))
	g := prng.Derive(c.Seed, prng.Hash("C18src"), uint64(base))
	var data []byte
	if kind == 0 {
		data = mixData(g, sl)
	} else {
		data = g.Bytes(sl)
	}
	gi := c.Rng(i)
	// reference pass: one huge buffer
	refRes := crRead(c, &crSource{Source: &gen.Source{Data: data, Budget: 100000}}, o, func(int) int { return 1 << 20 })
	if refRes.panicky {
		return
	}
	judge := func(res crResult, what string, det map[string]interface{}) bool {
		if res.badCall != "" {
			c.Violation("per-call-contract/"+what, res.badCall+" ["+o.String()+fmt.Sprintf(", source %d bytes]", len(data)), det)
			return false
		}
		if res.err != nil {
			c.Violation("read-error/"+what, fmt.Sprintf("CompressingReader failed on a healthy source: %v [%s, source %d bytes]", res.err, o, len(data)), det)
			return false
		}
		pf, perr := ref.ParseFrame(res.frame, ref.ParseOpts{EnforceBlockMax: true})
		if perr != nil {
			c.Violation("not-a-valid-frame/"+what, fmt.Sprintf("the bytes read (%d) are not a valid frame: %v [%s, source %d bytes]", len(res.frame), perr, o, len(data)), det)
			return false
		}
		ok := true
		for _, b := range ref.CheckConformance(pf, o.cfg(), data, len(res.frame)) {
			c.Violation("nonconforming/"+b[0]+"/"+what, fmt.Sprintf("%s [%s, source %d bytes]", b[1], o, len(data)), det)
			ok = false
		}
		return ok
	}
	if !judge(refRes, "single-read", map[string]interface{}{"opts": o.String(), "srclen": len(data)}) {
		return
	}
	frame := refRes.frame
	pf, _ := ref.ParseFrame(frame, ref.ParseOpts{})
	// read-size classes
	classes := []int{0, 1, 2, 3, 6, 7, 8, 100, 4096, len(frame), len(frame) + 1, len(frame) + 100}
	if len(pf.Blocks) > 0 {
		b0 := pf.Blocks[0]
		rec := 4 + b0.Size
		if b0.HasChecksum {
			rec += 4
		}
		hdr := pf.HeaderLen
		classes = append(classes, rec-1, rec, rec+1, hdr+rec-1, hdr+rec, hdr+rec+1)
		if len(pf.Blocks) > 1 {
			classes = append(classes, hdr+2*rec, rec-hdr)
		}
	}
	nc := len(classes)
	nTriples := nc * nc * nc
	// all triples for small sources, a seeded sample for large ones
	var triples []int
	if len(data) <= 70000 || c.Tier == "thorough" {
		for t := chunk; t < nTriples; t += int(perBase) {
			triples = append(triples, t)
		}
	} else {
		for k := 0; k < 40; k++ {
			triples = append(triples, gi.N(nTriples))
		}
	}
	for _, t := range triples {
		a, b, d := classes[t%nc], classes[(t/nc)%nc], classes[t/(nc*nc)]
		if a <= 0 && b <= 0 && d <= 0 {
			continue // only zero-length reads: no progress possible by definition
		}
		if len(data) > 70000 && a < 100 && b < 100 && d < 100 {
			a = 4096 // keep the number of calls on large inputs bounded
		}
		seq := [3]int{a, b, d}
		for j := range seq {
			if seq[j] < 0 {
				seq[j] = 0
			}
		}
		srcMode := gen.ReadPlain
		if t%5 == 1 {
			srcMode = 1 + gi.N(gen.NumReadModes-1)
			if srcMode == gen.ReadOneByte && len(data) > 70000 {
				srcMode = gen.ReadRandom
			}
		}
		src := &crSource{Source: &gen.Source{Data: data, Mode: srcMode, G: gi, Budget: 3000 + 3*len(data)}}
		if t%40 == 7 && len(data) >= 65535 && len(data) <= 140000 {
			// a healthy source that hands out small pieces with many (0, nil) answers in between (hundreds of
			// empty reads while one block is being filled, never two in a row)
			src.Source.Mode, src.Source.MaxChunk = gen.ReadZeroMixed, 48
			src.Source.Budget = 100000 + 40*len(data)
			srcMode = gen.ReadZeroMixed
			c.Count("sources_with_many_empty_reads", 1)
		}
		res := crRead(c, src, o, func(k int) int { return seq[k%3] })
		c.Count("read_patterns", 1)
		c.Count("read_calls", int64(res.calls))
		if res.panicky {
			continue
		}
		det := map[string]interface{}{"opts": o.String(), "srclen": len(data), "read_sizes_cycle": seq, "source_mode": srcMode, "frame_len": len(res.frame), "reference_len": len(frame)}
		if judge(res, "pattern", det) {
			// not required by the property (any valid frame would do), recorded as an observation only
			if bytes.Equal(res.frame, frame) {
				c.Count("frames_identical_to_single_read", 1)
			} else {
				c.Count("frames_valid_but_different_from_single_read", 1)
			}
		}
		c.Cell(fmt.Sprintf("%s/src%d-%d/a=%s/b=%s/c=%s/srcmode%d", o.String(), len(data), kind, szClass(seq[0], len(frame)), szClass(seq[1], len(frame)), szClass(seq[2], len(frame)), srcMode))
	}
	// failing sources: every call index of the source for small inputs, sampled for large
	if chunk == 0 {
		probe := &crSource{Source: &gen.Source{Data: data, Budget: 100000}}
		crRead(c, probe, o, func(int) int { return 4096 })
		ncalls := probe.Calls
		for k := 1; k <= ncalls; k++ {
			if ncalls > 40 && k%(ncalls/20+1) != 0 && k != ncalls {
				continue
			}
			for variant := 0; variant < 3; variant++ {
				withData := variant == 1
				// the look of the error value rotates: an error of its own, one that wraps io.EOF or
				// io.ErrUnexpectedEOF, and the bare io.ErrUnexpectedEOF of a truncated upstream
				ek := (k + variant + int(base)) % gen.NumErrKinds
				src := &crSource{Source: &gen.Source{Data: data, FailAt: k, FailData: withData, ErrKind: ek, Budget: 100000}}
				if variant == 2 {
					// a transient failure (only this call fails, with no data) of a source that makes short reads:
					// the block being filled already holds data when the error arrives
					src.Source.FailOnce = true
					src.Source.Mode = gen.ReadRandom
					src.Source.G = gi
					src.Source.MaxChunk = 10000
				}
				res := crRead(c, src, o, func(j int) int { return []int{4096, 7, 100000}[j%3] })
				c.Count("source_fault_points", 1)
				if res.panicky {
					continue
				}
				det := map[string]interface{}{"opts": o.String(), "srclen": len(data), "fail_at_source_call": k, "with_data": withData, "transient": variant == 2, "error_kind": []string{"plain", "wraps io.EOF", "wraps io.ErrUnexpectedEOF", "bare io.ErrUnexpectedEOF"}[ek]}
				ekName := []string{"plain", "wraps-eof", "wraps-unexpected-eof", "bare-unexpected-eof"}[ek]
				var want *gen.InjErr
				if len(src.Errs) > 0 {
					want = src.Errs[0]
				}
				switch {
				case want == nil:
					// the source was never called k times (the reader ended first): nothing to pass through
				case res.badCall != "":
					c.Violation("per-call-contract/source-fault", res.badCall, det)
				case res.err == nil:
					key := "source-error-swallowed"
					if ek != gen.ErrPlain {
						key += "/" + ekName
					}
					c.Violation(key, fmt.Sprintf("the source failed at its call %d (error value: %s) but the compressing reader ended with io.EOF [%s, source %d bytes]", k, ekName, o, len(data)), det)
				case ek == gen.ErrBareUnexpectedEOF && errors.Is(res.err, io.ErrUnexpectedEOF):
					// passed through
				case !isInjected(res.err, src.Errs):
					// (a failing call that still filled the request is indistinguishable from a success for
					// io.ReadFull; the persistent fault then shows up with a later call's error value)
					c.Violation("source-error-replaced", fmt.Sprintf("the source failed at its call %d with %v but the compressing reader returned %v", k, want, res.err), det)
				}
				c.Cell(fmt.Sprintf("%s/src%d/source-fault/data=%v/transient=%v/%s", o.String(), len(data), withData, variant == 2, ekName))
			}
		}
	}
	// reuse: after Reset onto a new source the reader must again yield one conforming frame
	// (whatever state the previous stream was left in)
	if chunk == 1 {
		data2full := mixData(gi, 1000+gi.N(70000))
		for scen := 0; scen < 8; scen++ {
			// the second stream is sometimes empty or a few bytes: nothing of the first may show in it
			data2 := data2full
			switch (scen + int(base)) % 3 {
			case 1:
				data2 = nil
			case 2:
				data2 = data2full[:1+scen]
			}
			var frame2 []byte
			var err2 error
			bad := ""
			src1 := &crSource{Source: &gen.Source{Data: data, Budget: 100000}}
			if scen >= 4 {
				// the first source fails (at its first / second call); the reader is reset after the error
				src1.Source.FailAt = scen - 3
				src1.Source.MaxChunk = 5000
			}
			// scenarios 6 and 7: the next user of the reader applies options of its own after Reset:
			// a smaller block size with a source longer than one such block, and a larger block size
			o1, o2 := o, o
			if scen >= 6 {
				o2.bc, o2.cc = !o.bc, !o.cc
				if scen == 6 {
					o1.bs, o2.bs = lz4.Block256Kb, lz4.Block64Kb
				} else {
					o1.bs, o2.bs = lz4.Block64Kb, lz4.Block256Kb
				}
				if o2.size != 0 {
					o2.size += 3
				}
				data2 = mixData(gi, 300000+gi.N(1000))
			}
			src2 := &crSource{Source: &gen.Source{Data: data2, Budget: 100000}}
			if c.Guard("CompressingReader.reuse", func() {
				zr := lz4.NewCompressingReader(src1)
				if err := zr.Apply(o1.options()...); err != nil {
					err2 = err
					return
				}
				buf := make([]byte, 1<<20)
				switch scen {
				case 0: // abandoned mid-stream after small reads (overflow pending)
					for _, k := range []int{7, 100, 4096} {
						zr.Read(buf[:k])
					}
				case 1: // consumed by one exact-length read: io.EOF never observed
					zr.Read(buf[:len(frame)])
				case 2, 6, 7: // read to io.EOF with small buffers
					for k := 0; k < 1<<20; k++ {
						if _, err := zr.Read(buf[:1+k%977]); err != nil {
							break
						}
					}
				case 3: // never read at all
				default: // read with small buffers until the source error comes back
					for k := 0; k < 1<<16; k++ {
						if _, err := zr.Read(buf[:[]int{4096, 7, 100}[k%3]]); err != nil {
							break
						}
					}
				}
				zr.Reset(src2)
				if scen >= 6 {
					if err := zr.Apply(o2.options()...); err != nil {
						err2 = fmt.Errorf("Apply after Reset: %w", err)
						return
					}
				}
				for k := 0; ; k++ {
					sz := []int{4096, 7, 100000}[k%3]
					n, err := zr.Read(buf[:sz])
					if n < 0 || n > sz {
						bad = fmt.Sprintf("Read(len %d) returned n=%d", sz, n)
						return
					}
					frame2 = append(frame2, buf[:n]...)
					if err == io.EOF {
						return
					}
					if err != nil {
						err2 = err
						return
					}
					if k > 100000 {
						bad = "the reused reader neither ends nor fails"
						return
					}
				}
			}) {
				continue
			}
			c.Count("reuse_scenarios", 1)
			res := crResult{frame: frame2, err: err2, badCall: bad}
			saved, savedO := data, o
			data, o = data2, o2
			judge(res, fmt.Sprintf("after-reset/scenario%d", scen), map[string]interface{}{"opts": o.String(), "first_opts": o1.String(), "first_source_len": len(saved), "second_source_len": len(data2), "scenario": []string{"abandoned mid-stream", "exact-length read", "read to EOF", "never read", "source failed at call 1", "source failed at call 2", "read to EOF, then Reset and Apply(smaller block size, other checksums)", "read to EOF, then Reset and Apply(larger block size, other checksums)"}[scen]})
			data, o = saved, savedO
			c.Cell(fmt.Sprintf("%s/src%d/reuse/scenario%d", o.String(), len(data), scen))
		}
	}
	if chunk == 0 && base%7 == 0 {
		c.Sample(map[string]interface{}{"opts": o.String(), "srclen": len(data), "frame_len": len(frame), "read_size_classes": classes, "patterns_in_this_case": len(triples)})
	}
}

func szClass(n, frameLen int) string {
	switch {
	case n == 0:
		return "0"
	case n < 7:
		return "<7"
	case n < 9:
		return "7-8"
	case n <= 100:
		return "<=100"
	case n < frameLen:
		return "<frame"
	case n == frameLen:
		return "=frame"
	default:
		return ">frame"
	}
}

// isInjected tells whether err wraps one of the failures injected into a source.
func isInjected(err error, errs []*gen.InjErr) bool {
	for _, e := range errs {
		if errors.Is(err, e) {
			return true
		}
	}
	return false
}
