package main

import (
	"bytes"
	"encoding/binary"
	"errors"
	"fmt"
	"io"

	lz4 "github.com/pierrec/lz4/v4"

	"verif/internal/gen"
	"verif/internal/ref"
)

// C19 – complete enumeration of the frame-header space:
// 65536 descriptors x 256 checksum bytes x content-size values.

var c19Sizes = []uint64{0, 1, 1 << 31, 1 << 63, ^uint64(0), 0x0102030405060708}

func c19NumSizes(c *Ctx) int {
	if c.Tier == "thorough" {
		return 16
	}
	return 3
}

func c19Size(c *Ctx, k int) uint64 {
	if c.Tier == "thorough" {
		if k < len(c19Sizes) {
			return c19Sizes[k]
		}
		return c.Rng(int64(k), 0xC19).Next()
	}
	// quick: the two fixed extremes (a present field holding 0 is not an absent field) and one seeded value
	if k == 0 {
		return ^uint64(0)
	}
	if k == 1 {
		return 0
	}
	return c.Rng(int64(k), 0xC19).Next()
}

// c19Reused is one Reader that is Reset onto header after header (its past: every header before).
var c19Reused *lz4.Reader

// c19Companion: an empty valid frame without [0] and with [1] a content-size field (12345).
var c19Companion = func() [2][]byte {
	var out [2][]byte
	for k := 0; k < 2; k++ {
		h := binary.LittleEndian.AppendUint32(nil, ref.MagicFrame)
		flg := byte(0x60)
		if k == 1 {
			flg |= 0x08
		}
		h = append(h, flg, 0x40)
		if k == 1 {
			h = binary.LittleEndian.AppendUint64(h, 12345)
		}
		h = append(h, ref.HeaderChecksum(h[4:]))
		out[k] = append(h, 0, 0, 0, 0)
	}
	return out
}()

func init() {
	register("C19", &PropDef{
		Total: func(c *Ctx) int64 { return int64(256*c19NumSizes(c)) + 1 },
		Run:   c19Run,
	})
}

var emptySum = ref.XXH32(nil)

func c19Run(c *Ctx, i int64) {
	if i == int64(256*c19NumSizes(c)) {
		c19NonMagic(c, i)
		return
	}
	flg := byte(i % 256)
	sizeIdx := int(i / 256)
	hasSize := flg&0x08 != 0
	if !hasSize && sizeIdx > 0 {
		c.Count("redundant_cases_skipped", 1)
		c.evals--
		return
	}
	size := uint64(0)
	if hasSize {
		size = c19Size(c, sizeIdx)
	}
	hdr := make([]byte, 0, 32)
	var accepted, rejHC, rejBS int64
	for bd := 0; bd < 256; bd++ {
		hdr = hdr[:0]
		hdr = binary.LittleEndian.AppendUint32(hdr, ref.MagicFrame)
		hdr = append(hdr, flg, byte(bd))
		if hasSize {
			hdr = binary.LittleEndian.AppendUint64(hdr, size)
		}
		wantHC := ref.HeaderChecksum(hdr[4:])
		hcAt := len(hdr)
		hdr = append(hdr, 0)
		hdr = append(hdr, 0, 0, 0, 0) // end mark
		if flg&0x04 != 0 {
			hdr = binary.LittleEndian.AppendUint32(hdr, emptySum)
		}
		code := (bd >> 4) & 7
		codeOK := code >= 4 && code <= 7
		for hc := 0; hc < 256; hc++ {
			hdr[hcAt] = byte(hc)
			hcOK := byte(hc) == wantHC
			var ok bool
			var err error
			if c.Guard("ValidFrameHeader", func() { ok, err = lz4.ValidFrameHeader(hdr) }) {
				return
			}
			// Reader on the same bytes
			var rn int
			var rerr error
			var rsize int
			var rbuf [8]byte
			if c.Guard("Reader.Read", func() {
				r := lz4.NewReader(bytes.NewReader(hdr))
				rn, rerr = r.Read(rbuf[:])
				rsize = r.Size()
			}) {
				return
			}
			detail := func() map[string]interface{} {
				return map[string]interface{}{"header": hexs(hdr), "flg": flg, "bd": bd, "hc": hc, "want_hc": wantHC, "size": size}
			}
			if hcOK || hc%16 == 3 {
				// one Reader reused with Reset for header after header: verdict and Size as from a new Reader
				var un int
				var uerr error
				var usize int
				if c.Guard("Reader.Read", func() {
					// its past: a valid header of the other kind (with a content size of 12345 if this one has
					// none, without one if this one has), read to the end
					if c19Reused == nil {
						c19Reused = lz4.NewReader(bytes.NewReader(c19Companion[b2i(!hasSize)]))
					} else {
						c19Reused.Reset(bytes.NewReader(c19Companion[b2i(!hasSize)]))
					}
					_, _ = c19Reused.Read(rbuf[:])
					c19Reused.Reset(bytes.NewReader(hdr))
					un, uerr = c19Reused.Read(rbuf[:])
					usize = c19Reused.Size()
				}) {
					c19Reused = nil
					return
				}
				c.Count("reused_reader_header_reads", 1)
				if un != rn || usize != rsize || fmt.Sprint(uerr) != fmt.Sprint(rerr) {
					if !c.Over("header-verdict-depends-on-reader-history") {
						c.Violation("header-verdict-depends-on-reader-history", fmt.Sprintf("FLG=%02x BD=%02x HC=%02x: a new Reader gives (%d, %v) Size %d; a Reader reused with Reset gives (%d, %v) Size %d", flg, bd, hc, rn, rerr, rsize, un, uerr, usize), detail())
					}
				}
			}
			if hcOK {
				// the same header delivered in fragments (one byte per read; one split at a rotating position):
				// the verdict and the size may not depend on how the source cuts its reads
				for v := 0; v < 2; v++ {
					var fn int
					var ferr error
					var fsize int
					src := &gen.Source{Data: hdr, Mode: gen.ReadOneByte, Budget: 1000}
					if v == 1 {
						src = &gen.Source{Data: hdr, MaxChunk: 5 + (bd+hc)%11, Budget: 1000}
					}
					if c.Guard("Reader.Read", func() {
						r := lz4.NewReader(src)
						fn, ferr = r.Read(rbuf[:])
						fsize = r.Size()
					}) {
						return
					}
					c.Count("fragmented_header_reads", 1)
					if fn != rn || fsize != rsize || fmt.Sprint(ferr) != fmt.Sprint(rerr) {
						if !c.Over("header-verdict-depends-on-read-fragmentation") {
							c.Violation("header-verdict-depends-on-read-fragmentation", fmt.Sprintf("FLG=%02x BD=%02x HC=%02x (correct): Reader on one read = (%d, %v) Size %d; delivered in fragments (variant %d) = (%d, %v) Size %d", flg, bd, hc, rn, rerr, rsize, v, fn, ferr, fsize), detail())
						}
					}
				}
			}
			switch {
			case hcOK && codeOK:
				accepted++
				if !ok || err != nil {
					if !c.Over("valid-header-rejected/ValidFrameHeader") {
						c.Violation("valid-header-rejected/ValidFrameHeader", fmt.Sprintf("FLG=%02x BD=%02x HC=%02x (correct) rejected: ok=%v err=%v", flg, bd, hc, ok, err), detail())
					}
				}
				if rerr != io.EOF || rn != 0 {
					if !c.Over("valid-header-rejected/Reader") {
						c.Violation("valid-header-rejected/Reader", fmt.Sprintf("FLG=%02x BD=%02x HC=%02x: Reader.Read = (%d, %v), want (0, EOF)", flg, bd, hc, rn, rerr), detail())
					}
				} else if uint64(rsize) != size {
					if !c.Over("size-not-faithful") {
						c.Violation("size-not-faithful", fmt.Sprintf("FLG=%02x BD=%02x: Size() = %d, content-size field %d (present=%v)", flg, bd, uint64(rsize), size, hasSize), detail())
					}
				}
			case !hcOK:
				rejHC++
				if ok || err == nil {
					if !c.Over("bad-hc-accepted/ValidFrameHeader") {
						c.Violation("bad-hc-accepted/ValidFrameHeader", fmt.Sprintf("FLG=%02x BD=%02x HC=%02x (want %02x) accepted: ok=%v err=%v", flg, bd, hc, wantHC, ok, err), detail())
					}
				} else if !errors.Is(err, lz4.ErrInvalidHeaderChecksum) {
					if !c.Over("bad-hc-wrong-error/ValidFrameHeader") {
						c.Violation("bad-hc-wrong-error/ValidFrameHeader", fmt.Sprintf("FLG=%02x BD=%02x HC=%02x (want %02x): error %q is not ErrInvalidHeaderChecksum", flg, bd, hc, wantHC, err), detail())
					}
				}
				if rerr == nil || rerr == io.EOF {
					if !c.Over("bad-hc-accepted/Reader") {
						c.Violation("bad-hc-accepted/Reader", fmt.Sprintf("FLG=%02x BD=%02x HC=%02x (want %02x): Reader.Read = (%d, %v)", flg, bd, hc, wantHC, rn, rerr), detail())
					}
				} else if !errors.Is(rerr, lz4.ErrInvalidHeaderChecksum) {
					if !c.Over("bad-hc-wrong-error/Reader") {
						c.Violation("bad-hc-wrong-error/Reader", fmt.Sprintf("FLG=%02x BD=%02x HC=%02x: Reader error %q is not ErrInvalidHeaderChecksum", flg, bd, hc, rerr), detail())
					}
				}
			default: // correct checksum, undefined block size code
				rejBS++
				if ok || err == nil {
					if !c.Over("bad-blocksize-accepted/ValidFrameHeader") {
						c.Violation("bad-blocksize-accepted/ValidFrameHeader", fmt.Sprintf("FLG=%02x BD=%02x (code %d) accepted: ok=%v err=%v", flg, bd, code, ok, err), detail())
					}
				} else if !errors.Is(err, lz4.ErrOptionInvalidBlockSize) || errors.Is(err, lz4.ErrInvalidHeaderChecksum) {
					if !c.Over("bad-blocksize-wrong-error/ValidFrameHeader") {
						c.Violation("bad-blocksize-wrong-error/ValidFrameHeader", fmt.Sprintf("FLG=%02x BD=%02x (code %d): error %q is not ErrOptionInvalidBlockSize", flg, bd, code, err), detail())
					}
				}
				if rerr == nil || rerr == io.EOF {
					if !c.Over("bad-blocksize-accepted/Reader") {
						c.Violation("bad-blocksize-accepted/Reader", fmt.Sprintf("FLG=%02x BD=%02x (code %d): Reader.Read = (%d, %v)", flg, bd, code, rn, rerr), detail())
					}
				} else if !errors.Is(rerr, lz4.ErrOptionInvalidBlockSize) || errors.Is(rerr, lz4.ErrInvalidHeaderChecksum) {
					if !c.Over("bad-blocksize-wrong-error/Reader") {
						c.Violation("bad-blocksize-wrong-error/Reader", fmt.Sprintf("FLG=%02x BD=%02x (code %d): Reader error %q is not ErrOptionInvalidBlockSize", flg, bd, code, rerr), detail())
					}
				}
			}
		}
	}
	c.Count("headers", 65536)
	c.Count("accepted", accepted)
	c.Count("rejected_hc", rejHC)
	c.Count("rejected_blocksize", rejBS)
	c.Cell(fmt.Sprintf("hdr/flg=%02x/size#%d", flg, sizeIdx))
	if flg == 0x64 || flg == 0x6C {
		c.Sample(map[string]interface{}{"flg": fmt.Sprintf("%02x", flg), "size_field": size, "bd": "00..ff", "hc": "00..ff", "accepted": accepted})
	}
}

// c19NonMagic: first words that are not a frame magic make ValidFrameHeader
// return (false, nil).
func c19NonMagic(c *Ctx, i int64) {
	g := c.Rng(i)
	words := []uint32{0, 1, 0xFFFFFFFF, ref.MagicFrame ^ 1, ref.MagicFrame + 1, ref.MagicFrame - 1, ref.MagicLegacy ^ 0x100, ref.MagicLegacy + 1,
		ref.MagicSkip - 1, ref.MagicSkip + 16, ref.MagicSkip ^ 0x80000000, 0x04224D18, 0x184D2205, 0x184D2200}
	for b := 0; b < 32; b++ {
		words = append(words, ref.MagicFrame^(1<<uint(b)), ref.MagicLegacy^(1<<uint(b)))
	}
	// every word sharing the upper three bytes with one of the magics (incl. the 240 words
	// 0x184D2Axx that are NOT skippable magics)
	for x := uint32(0); x < 256; x++ {
		words = append(words, ref.MagicFrame&^0xFF|x, ref.MagicLegacy&^0xFF|x, ref.MagicSkip&^0xFF|x)
	}
	n := 4000
	if c.Tier == "thorough" {
		n = 100000
	}
	for k := 0; k < n; k++ {
		words = append(words, uint32(g.Next()))
	}
	tested := int64(0)
	for _, w := range words {
		if w == ref.MagicFrame || w == ref.MagicLegacy || w>>4 == ref.MagicSkip>>4 {
			continue // the magics themselves (skipping of the 16 skippable ones is C07's subject)
		}
		in := binary.LittleEndian.AppendUint32(nil, w)
		in = append(in, 0x64, 0x40, 0xA7, 0, 0, 0, 0, 0, 0, 0, 0)
		var ok bool
		var err error
		if c.Guard("ValidFrameHeader", func() { ok, err = lz4.ValidFrameHeader(in) }) {
			return
		}
		tested++
		if ok || err != nil {
			if !c.Over("non-magic/ValidFrameHeader") {
				c.Violation("non-magic/ValidFrameHeader", fmt.Sprintf("first word %08x: ValidFrameHeader = (%v, %v), want (false, nil)", w, ok, err), map[string]interface{}{"word": w})
			}
		}
	}
	c.Count("non_magic_words", tested)
	c.Cell("non-magic-words")
}
