package main

import (
	"bytes"
	"fmt"
	"os"
	"path/filepath"

	"verif/internal/gen"
	"verif/internal/ref"
)

// C16 – frames with dependent blocks decode exactly across the 64 KiB window.
// Inputs come from the independent linked-block encoder (the library's Writer
// never emits such frames) plus one reference-encoder artefact from testdata.

func c16Total(c *Ctx) int64 {
	if c.Tier == "thorough" {
		return 4000 + 1
	}
	return 1200 + 1
}

func init() {
	register("C16", &PropDef{
		Total: c16Total,
		Run:   c16Case,
	})
}

func c16Case(c *Ctx, i int64) {
	if i == c16Total(c)-1 {
		c16Golden(c)
		return
	}
	g := c.Rng(i)
	k := int(i)
	o := ref.LinkedOpts{
		BSCode:          []int{4, 4, 5, 7, 4, 6}[k%6],
		Total:           []int{100, 3000, 70000, 140000, 300000, 140000, 200000, 1000000}[(k/6)%8],
		BlockChecksum:   (k/3)%2 == 1,
		ContentChecksum: (k/5)%2 == 1,
		ContentSize:     (k/7)%2 == 1,
		SmallBlocks:     (k/2)%4 == 0,
		RawPercent:      []int{0, 15, 40}[(k/4)%3],
	}
	if o.Total >= 1000000 && c.Tier == "quick" && k%5 != 0 {
		o.Total = 400000
	}
	if o.SmallBlocks && o.Total > 200000 {
		o.Total = 200000 // tiny blocks: many of them
	}
	content, frame, st := ref.EncodeLinkedFrame(g, o)
	// the frame must be acceptable to the independent parser, otherwise the case is void
	pf, perr := ref.ParseFrame(frame, ref.ParseOpts{EnforceBlockMax: true})
	if perr != nil || !bytes.Equal(pf.Content, content) {
		c.Count("generator_frames_rejected_by_reference", 1)
		return
	}
	bm := ref.BlockMaxForCode(o.BSCode)
	type rd struct{ conc, mode int }
	rds := []rd{{1, rdWriteTo}, {1, rdSmall}, {1, rdBlock}, {1, rdMixed}, {4, rdWriteTo}, {2, rdMixed}, {-1, rdBlock}, {4, rdSmall}}
	if len(content) > 500000 && c.Tier == "quick" {
		rds = []rd{{1, rdWriteTo}, {1, rdMixed}, {4, rdBlock}}
	}
	for _, r := range rds {
		rr := readStream(c, frame, r.conc, r.mode, bm, g, gen.ReadPlain)
		c.Count("linked_frame_reads", 1)
		if rr.panicky {
			continue
		}
		det := func() map[string]interface{} {
			d := 0
			for d < len(rr.out) && d < len(content) && rr.out[d] == content[d] {
				d++
			}
			return map[string]interface{}{"opts": fmt.Sprintf("%+v", o), "stats": fmt.Sprintf("%+v", st), "reader_conc": r.conc, "read_mode": rdNames[r.mode], "err": fmt.Sprint(rr.err), "got_len": len(rr.out), "want_len": len(content), "first_difference": d, "case": i}
		}
		mc := "seq"
		if r.conc != 1 {
			mc = "conc"
		}
		if rr.err != nil {
			c.Violation("linked-frame-decode-error/"+mc+"/"+rdNames[r.mode], fmt.Sprintf("dependent-block frame (%d bytes in %d blocks, %d stored) fails with Reader(conc %d, %s): %v", len(content), st.Blocks, st.Raw, r.conc, rdNames[r.mode], rr.err), det())
			continue
		}
		if !bytes.Equal(rr.out, content) {
			c.Violation("linked-frame-wrong-content/"+mc+"/"+rdNames[r.mode], fmt.Sprintf("dependent-block frame (%d bytes in %d blocks, %d stored) decodes differently with Reader(conc %d, %s)", len(content), st.Blocks, st.Raw, r.conc, rdNames[r.mode]), det())
			continue
		}
		c.Cell(fmt.Sprintf("bs%d/total%s/small=%v/raw=%d/bc%d/cc%d/conc%d/%s", o.BSCode, sizeBucketK(len(content)), o.SmallBlocks, o.RawPercent, b2i(o.BlockChecksum), b2i(o.ContentChecksum), r.conc, rdNames[r.mode]))
	}
	c.Count("matches_from_previous_block", int64(st.CrossOne))
	c.Count("matches_from_two_or_more_blocks_back", int64(st.CrossMany))
	c.Count("matches_offset_65535", int64(st.Off65535))
	c.Count("matches_straddling_block_start", int64(st.StraddleStart))
	c.Count("stored_blocks", int64(st.Raw))
	c.Count("blocks", int64(st.Blocks))
	if len(content) > 128<<10 && st.MaxBlock < 64<<10 {
		c.Count("frames_crossing_trim_threshold_with_small_blocks", 1)
	}
	if i%29 == 0 {
		c.Sample(map[string]interface{}{"opts": fmt.Sprintf("%+v", o), "content_len": len(content), "frame_len": len(frame), "stats": fmt.Sprintf("%+v", st)})
	}
}

func sizeBucketK(n int) string {
	switch {
	case n < 4096:
		return "<4K"
	case n < 65536:
		return "<64K"
	case n <= 131072:
		return "<=128K"
	case n < 1<<20:
		return "<1M"
	default:
		return ">=1M"
	}
}

// c16Golden: the reference encoder's linked file must decode to the same
// bytes as its independent-blocks sibling.
func c16Golden(c *Ctx) {
	a, err1 := os.ReadFile(filepath.Join(c.Repo, "testdata", "Mark.Twain-Tom.Sawyer_linked.txt.lz4"))
	b, err2 := os.ReadFile(filepath.Join(c.Repo, "testdata", "Mark.Twain-Tom.Sawyer_long.txt.lz4"))
	if err1 != nil || err2 != nil || len(a) == 0 || len(b) == 0 {
		c.Count("golden_linked_file_missing", 1)
		return
	}
	g := c.Rng(0, 16)
	want := readStream(c, b, 1, rdWriteTo, 4<<20, g, gen.ReadPlain)
	if want.err != nil {
		c.Count("golden_long_file_unreadable", 1)
		return
	}
	for _, conc := range []int{1, 4} {
		for _, mode := range []int{rdWriteTo, rdSmall, rdBlock} {
			rr := readStream(c, a, conc, mode, 4<<20, g, gen.ReadPlain)
			c.Count("linked_frame_reads", 1)
			if rr.err != nil || !bytes.Equal(rr.out, want.out) {
				c.Violation("golden-linked-file-differs", fmt.Sprintf("reference-encoder linked file: Reader(conc %d, %s) err=%v, %d bytes, expected %d", conc, rdNames[mode], rr.err, len(rr.out), len(want.out)), nil)
			}
			c.Cell(fmt.Sprintf("golden-linked/conc%d/%s", conc, rdNames[mode]))
		}
	}
}
