// worker executes the cases of one property shard against the library built
// from /repo's working tree and reports what its monitors observed.
package main

import (
	"flag"
	"fmt"
	"os"
	"runtime"
	"runtime/debug"
	"sort"

	lz4 "github.com/pierrec/lz4/v4"

	"verif/internal/mon"
)

// PropDef describes one property's case space.
type PropDef struct {
	// Total returns the number of cases of the tier (a pure function of tier).
	Total func(c *Ctx) int64
	// Setup runs once before the first case.
	Setup func(c *Ctx)
	// Run executes case i (a pure function of (seed, tier, i)).
	Run func(c *Ctx, i int64)
	// Done runs once after the last case.
	Done func(c *Ctx)
}

var props = map[string]*PropDef{}

func register(id string, d *PropDef) { props[id] = d }

func main() {
	c := &Ctx{}
	var out string
	var seed int64
	flag.StringVar(&c.Prop, "prop", "", "property id")
	flag.StringVar(&c.Tier, "tier", "quick", "quick|thorough")
	flag.Int64Var(&seed, "seed", 1, "VERIF_SEED")
	flag.IntVar(&c.Shard, "shard", 0, "shard index")
	flag.IntVar(&c.NShards, "nshards", 1, "number of shards")
	flag.Int64Var(&c.Start, "start", 0, "first case index to run")
	flag.Int64Var(&c.Only, "only", -1, "run only this case (replay)")
	flag.StringVar(&c.Variant, "variant", "asm", "build variant label")
	flag.StringVar(&out, "out", "", "JSONL output file")
	flag.StringVar(&c.Repo, "repo", "/repo", "repository root (for testdata)")
	flag.BoolVar(&c.Verbose, "v", false, "verbose")
	list := flag.Bool("list", false, "list properties")
	flag.Parse()
	if *list {
		ids := []string{}
		for k := range props {
			ids = append(ids, k)
		}
		sort.Strings(ids)
		fmt.Println(ids)
		return
	}
	c.Seed = uint64(seed)
	d := props[c.Prop]
	if d == nil {
		fatal("unknown property %q", c.Prop)
	}
	c.open(out)
	// soft limit: the collector works harder instead of letting garbage pile up to twice the live heap
	// (16 workers share the machine); nothing fails when it is exceeded
	debug.SetMemoryLimit(3 << 30)
	// the step counter (runaway-loop monitor of Watch) is on for every property; perturbation stays off
	// unless a property switches it on
	lz4.VerifSetHooks(mon.Yield, nil, nil, nil)
	if d.Setup != nil {
		d.Setup(c)
	}
	total := d.Total(c)
	c.Count("case_space", 0)
	if c.Only >= 0 {
		c.Begin(c.Only)
		d.Run(c, c.Only)
	} else {
		for i := int64(0); i < total; i++ {
			if !c.Mine(i) {
				continue
			}
			c.Begin(i)
			d.Run(c, i)
			if !c.needRestart && c.evals%32 == 0 && runtime.NumGoroutine() > 3000 {
				// goroutines abandoned by the library (e.g. the pipeline of a concurrent Reader that was Reset
				// mid-stream) pin their buffers for ever: continue in a fresh process before memory runs out
				c.Count("process_recycled_goroutine_backlog", 1)
				c.needRestart = true
			}
			if c.needRestart {
				// a runaway library goroutine was abandoned: hand over to a fresh process
				c.counters["case_space"] = total
				c.Checkpoint()
				os.Exit(67)
			}
			if c.evals%500 == 0 {
				c.counters["case_space"] = total
				c.Checkpoint()
			}
		}
	}
	if d.Done != nil {
		d.Done(c)
	}
	c.counters["case_space"] = total
	c.Finish()
	os.Exit(0)
}
