package main

import (
	"bytes"
	"encoding/binary"
	"fmt"
	"strings"

	lz4 "github.com/pierrec/lz4/v4"

	"verif/internal/gen"
	"verif/internal/prng"
	"verif/internal/ref"
)

// Valid frames used as seeds for truncation (C06), corruption (C05), hostile
// input (C07) and fault injection (C15).  They are produced by the real
// Writer (its conformance is C09's subject and is re-checked here by the
// independent parser) and by the independent linked-block encoder.

type seedFrame struct {
	name   string
	cfg    wcfg
	input  []byte
	frame  []byte
	pf     *ref.Frame
	linked bool
	large  bool
}

type wstep struct {
	data  []byte
	flush bool
	rf    bool // deliver through ReadFrom
}

func runsData(g *prng.Rng, n int) []byte {
	b := make([]byte, 0, n)
	for len(b) < n {
		k := 3000 + g.N(4000)
		b = append(b, bytes.Repeat([]byte{byte(g.Next())}, k)...)
	}
	return b[:n]
}

func writeScript(cfg wcfg, steps []wstep) ([]byte, []byte, error) {
	var sink bytes.Buffer
	var input []byte
	w := lz4.NewWriter(&sink)
	if err := w.Apply(cfg.opts()...); err != nil {
		return nil, nil, err
	}
	for _, s := range steps {
		input = append(input, s.data...)
		if s.rf {
			if _, err := w.ReadFrom(bytes.NewReader(s.data)); err != nil {
				return nil, nil, err
			}
		} else if _, err := w.Write(s.data); err != nil {
			return nil, nil, err
		}
		if s.flush {
			if err := w.Flush(); err != nil {
				return nil, nil, err
			}
		}
	}
	if err := w.Close(); err != nil {
		return nil, nil, err
	}
	return sink.Bytes(), input, nil
}

// buildSeeds returns the seed frames; it is deterministic for a given seed.
// A seed that the independent parser does not accept is dropped (and counted):
// judging the Reader against a broken seed would be meaningless.
func buildSeeds(c *Ctx, withLarge bool) []seedFrame {
	g := prng.Derive(c.Seed, prng.Hash("seeds"))
	var seeds []seedFrame
	add := func(name string, cfg wcfg, steps []wstep, large bool) {
		frame, input, err := writeScript(cfg, steps)
		if err != nil {
			c.Count("seed_write_errors", 1)
			return
		}
		pf, perr := ref.ParseFrame(frame, ref.ParseOpts{EnforceBlockMax: true})
		if perr == nil && strings.HasPrefix(name, "readfrom-exact-multiple") && pf.EmptyStored == 0 {
			// Frames with an empty stored block (word 0x80000000) exist in the wild: older versions of
			// this library's ReadFrom wrote one for inputs that are a multiple of the block size.  The
			// Reader-side checks keep that seed whatever the Writer under test does: the block is put in
			// front of the end mark by hand.
			ins := []byte{0, 0, 0, 0x80}
			if pf.BlockChecksum {
				ins = binary.LittleEndian.AppendUint32(ins, ref.XXH32(nil))
			}
			frame = append(append(append([]byte(nil), frame[:pf.EndMarkOff]...), ins...), frame[pf.EndMarkOff:]...)
			pf, perr = ref.ParseFrame(frame, ref.ParseOpts{EnforceBlockMax: true})
			c.Count("seeds_with_hand_made_empty_stored_block", 1)
		}
		if perr != nil || !bytes.Equal(pf.Content, input) || pf.Consumed != len(frame) {
			c.Count("seeds_rejected_by_reference", 1)
			return
		}
		if cfg.legacy && legacyAmbiguous(pf) {
			c.Count("seeds_dropped_legacy_ambiguity", 1)
			return
		}
		seeds = append(seeds, seedFrame{name: name, cfg: cfg, input: input, frame: append([]byte(nil), frame...), pf: pf, large: large})
	}
	base := wcfg{bs: lz4.Block64Kb, conc: 1, level: lz4.Fast}
	for k := 0; k < 8; k++ {
		cfg := base
		cfg.bc, cfg.cc = k&1 != 0, k&2 != 0
		if k&4 != 0 {
			cfg.size = 200000
		}
		// three full compressible blocks and a short incompressible (stored) one
		data := append(runsData(g, 3*65536), g.Bytes(700)...)
		add(fmt.Sprintf("multiblock/bc%d/cc%d/size%d", b2i(cfg.bc), b2i(cfg.cc), b2i(cfg.size != 0)), cfg, []wstep{{data: data}}, false)
	}
	for k := 0; k < 4; k++ {
		cfg := base
		cfg.bc, cfg.cc = k&1 != 0, k&2 != 0
		cfg.level = lz4.Level3
		add(fmt.Sprintf("flushed/bc%d/cc%d", b2i(cfg.bc), b2i(cfg.cc)), cfg,
			[]wstep{{data: gen.Text(g, c.Repo, 300), flush: true}, {data: g.Bytes(200), flush: true}, {data: runsData(g, 5000)}}, false)
	}
	for k := 0; k < 2; k++ {
		cfg := base
		cfg.cc = k == 1
		cfg.bc = k == 1
		add(fmt.Sprintf("empty/cc%d", k), cfg, nil, false)
		add(fmt.Sprintf("tiny/cc%d", k), cfg, []wstep{{data: []byte("hello, lz4")}}, false)
		add(fmt.Sprintf("readfrom-exact-multiple/cc%d", k), cfg, []wstep{{data: runsData(g, 2*65536), rf: true}}, false)
	}
	{
		cfg := base
		cfg.bs = lz4.Block256Kb
		cfg.cc = true
		add("256K-blocks", cfg, []wstep{{data: append(runsData(g, 262144+5000), g.Bytes(300)...)}}, false)
	}
	// blocks stored raw at the full block size (the record fills the Reader's block buffer to the last
	// byte; with block checksums the checksum word no longer fits behind it)
	for k := 0; k < 2; k++ {
		cfg := base
		cfg.bc, cfg.cc = true, k == 1
		add(fmt.Sprintf("stored-full-blocks/bc1/cc%d", k), cfg, []wstep{{data: append(g.Bytes(2*65536), gen.Text(g, c.Repo, 3000)...)}}, true)
	}
	// the size word of the last block equals the number of content bytes in front of it
	for k := 0; k < 4; k++ {
		cfg := base
		cfg.cc, cfg.bc = k&1 != 0, k&2 != 0
		if steps, ok := coincidenceScript(c, g, cfg, k >= 2); ok {
			add(fmt.Sprintf("size-word-equals-decoded-total/bc%d/cc%d", b2i(cfg.bc), b2i(cfg.cc)), cfg, steps, false)
		} else {
			c.Count("coincidence_seeds_not_built", 1)
		}
	}
	// legacy: one small block; two flushed blocks
	{
		cfg := base
		cfg.legacy = true
		add("legacy/single", cfg, []wstep{{data: gen.Text(g, c.Repo, 1500)}}, false)
		add("legacy/flushed", cfg, []wstep{{data: gen.Text(g, c.Repo, 900), flush: true}, {data: runsData(g, 4000), flush: true}, {data: g.Bytes(60)}}, false)
	}
	// dependent blocks from the independent encoder
	for k := 0; k < 2; k++ {
		content, frame, _ := ref.EncodeLinkedFrame(g, ref.LinkedOpts{BSCode: 4, Total: 1500, BlockChecksum: k == 1, ContentChecksum: true, SmallBlocks: true, RawPercent: 20})
		pf, err := ref.ParseFrame(frame, ref.ParseOpts{EnforceBlockMax: true})
		if err == nil && bytes.Equal(pf.Content, content) {
			seeds = append(seeds, seedFrame{name: fmt.Sprintf("linked/bc%d", k), cfg: wcfg{bs: lz4.Block64Kb, bc: k == 1, cc: true, conc: 1}, input: content, frame: frame, pf: pf, linked: true})
		} else {
			c.Count("seeds_rejected_by_reference", 1)
		}
	}
	// a skippable frame (with payload) in front of a data frame: cuts inside it are truncations too
	if len(seeds) > 0 {
		base0 := seeds[0]
		var pre []byte
		pre = append(pre, 0x53, 0x2A, 0x4D, 0x18, 64, 0, 0, 0)
		pre = append(pre, g.Bytes(64)...)
		frame := append(pre, base0.frame...)
		if pf, err := ref.ParseFrame(frame, ref.ParseOpts{EnforceBlockMax: true}); err == nil && bytes.Equal(pf.Content, base0.input) {
			seeds = append(seeds, seedFrame{name: "skippable-prefix/" + base0.name, cfg: base0.cfg, input: base0.input, frame: frame, pf: pf})
		}
		// the same with 40000 bytes of user data (more than any internal copy buffer: a reader may be tempted
		// to seek over it, and seeking past the end of a file or a bytes.Reader succeeds)
		var big []byte
		big = append(big, 0x5A, 0x2A, 0x4D, 0x18)
		big = binary.LittleEndian.AppendUint32(big, 40000)
		big = append(big, g.Bytes(40000)...)
		frame2 := append(big, base0.frame...)
		if pf, err := ref.ParseFrame(frame2, ref.ParseOpts{EnforceBlockMax: true}); err == nil && bytes.Equal(pf.Content, base0.input) {
			seeds = append(seeds, seedFrame{name: "skippable-prefix-40K/" + base0.name, cfg: base0.cfg, input: base0.input, frame: frame2, pf: pf, large: true})
		}
	}
	if withLarge {
		cfg := base
		cfg.bc, cfg.cc = true, true
		add("large/text-1M", cfg, []wstep{{data: gen.Text(g, c.Repo, 1<<20)}}, true)
		cfg = base
		cfg.bs, cfg.cc = lz4.Block4Mb, true
		add("large/4M-blocks", cfg, []wstep{{data: mixData(g, 9<<20)}}, true)
		cfg = base
		cfg.legacy = true
		add("large/legacy-2-blocks", cfg, []wstep{{data: mixData(g, 8<<20+70000)}}, true)
	}
	return seeds
}

// coincidenceScript builds a flushed message stream in which the size word of the last
// block equals the number of content bytes in front of it (one or two blocks): the last
// message is written alone first to learn the size M its block compresses to, then M bytes
// of other messages are put in front.  A valid stream; a reader that gives the value of a
// size word a second meaning (end mark, trailer, magic) trips over it.
func coincidenceScript(c *Ctx, g *prng.Rng, cfg wcfg, two bool) ([]wstep, bool) {
	last := gen.Text(g, c.Repo, 9000+g.N(20000))
	frame, _, err := writeScript(cfg, []wstep{{data: last}})
	if err != nil {
		return nil, false
	}
	pf, perr := ref.ParseFrame(frame, ref.ParseOpts{})
	if perr != nil || len(pf.Blocks) != 1 || pf.Blocks[0].Stored {
		return nil, false
	}
	m := pf.Blocks[0].Size
	if m < 8 || m > cfg.blockMax() {
		return nil, false
	}
	if two {
		a := 1 + g.N(m-1)
		return []wstep{{data: g.Bytes(a), flush: true}, {data: runsData(g, m-a), flush: true}, {data: last}}, true
	}
	return []wstep{{data: g.Bytes(m), flush: true}, {data: last}}, true
}

func legacyAmbiguous(pf *ref.Frame) bool {
	cum := 0
	for _, b := range pf.Blocks {
		if b.Word == uint32(cum) {
			return true
		}
		cum += b.DecLen
	}
	return false
}
