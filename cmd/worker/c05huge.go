package main

// C05, frames whose content is longer than 4 GiB: the content checksum must still cover every byte.
// (A 32-bit running length in the checksum, or one that is reset when the count wraps, leaves the
// first 4 GiB out of the content checksum: seeded change C05-9.)  The frames are built by hand from
// one compressed block of 4 MiB of zeros repeated 1024 times (exactly 2^32 bytes) plus a short last
// block; the expected content checksum comes from the reference XXH32, streamed.  The tampered
// frames are invalid by construction, so a clean end of stream is the violation; nothing has to
// hold 4 GiB.

import (
	"bytes"
	"encoding/binary"
	"fmt"
	"io"

	lz4 "github.com/pierrec/lz4/v4"

	"verif/internal/ref"
)

type hugeFrames struct {
	valid    []byte
	tampered [][]byte
	names    []string
	total    int64
}

var theHuge *hugeFrames

const hugeBlock = 4 << 20

func compressedBlockOf(b byte, n int) []byte {
	src := bytes.Repeat([]byte{b}, n)
	dst := make([]byte, lz4.CompressBlockBound(n))
	k, err := lz4.CompressBlock(src, dst, nil)
	if err != nil || k == 0 {
		panic(harnessPanic{"huge frame: cannot compress the building block"})
	}
	out, v, _ := ref.DecodeBlock(dst[:k], nil, n)
	if !v.Accept() || !bytes.Equal(out, src) {
		panic(harnessPanic{"huge frame: the building block does not decode to its source by the reference decoder"})
	}
	return dst[:k]
}

func buildHuge() *hugeFrames {
	if theHuge != nil {
		return theHuge
	}
	h := &hugeFrames{}
	zeros := compressedBlockOf(0, hugeBlock)
	ones := compressedBlockOf(1, hugeBlock)
	tail := []byte("the last thousand bytes after the four gigabyte mark ............")
	for len(tail) < 1000 {
		tail = append(tail, tail...)
	}
	tail = tail[:1000]
	// reference checksums, streamed
	var full, tampFull, after ref.XXH32State
	full.Reset()
	tampFull.Reset()
	after.Reset()
	z := make([]byte, hugeBlock)
	o := bytes.Repeat([]byte{1}, hugeBlock)
	for i := 0; i < 1024; i++ {
		full.Write(z)
		if i == 0 {
			tampFull.Write(o)
		} else {
			tampFull.Write(z)
		}
	}
	full.Write(tail)
	tampFull.Write(tail)
	after.Write(tail)
	h.total = 1024*hugeBlock + int64(len(tail))
	mk := func(first []byte, sum uint32) []byte {
		var f []byte
		f = binary.LittleEndian.AppendUint32(f, ref.MagicFrame)
		desc := []byte{0x64, 0x70} // version 01, independent blocks, content checksum; 4 MiB blocks
		f = append(f, desc...)
		f = append(f, ref.HeaderChecksum(desc))
		for i := 0; i < 1024; i++ {
			b := zeros
			if i == 0 {
				b = first
			}
			f = binary.LittleEndian.AppendUint32(f, uint32(len(b)))
			f = append(f, b...)
		}
		f = binary.LittleEndian.AppendUint32(f, uint32(len(tail))|0x80000000)
		f = append(f, tail...)
		f = binary.LittleEndian.AppendUint32(f, 0)
		return binary.LittleEndian.AppendUint32(f, sum)
	}
	h.valid = mk(zeros, full.Sum32())
	if full.Sum32() == after.Sum32() || tampFull.Sum32() == full.Sum32() {
		panic(harnessPanic{"huge frame: checksums coincide"})
	}
	// (a) first block altered, checksum field left as it was;
	// (b) first block altered, checksum field = XXH32 of the bytes after the 2^32 mark only;
	// (c) content untouched, checksum field = XXH32 of the bytes after the 2^32 mark only
	h.tampered = [][]byte{mk(ones, full.Sum32()), mk(ones, after.Sum32()), mk(zeros, after.Sum32())}
	h.names = []string{"first-block-altered", "first-block-altered+checksum-of-the-bytes-after-2^32", "checksum-of-the-bytes-after-2^32"}
	theHuge = h
	return h
}

type countingWriter struct{ n int64 }

func (w *countingWriter) Write(p []byte) (int, error) { w.n += int64(len(p)); return len(p), nil }

func numHugeCases(c *Ctx) int64 {
	if c.Tier == "thorough" {
		return 8
	}
	return 3
}

// case 0: the valid frame (must be accepted: sanity of the construction, counted, not judged here);
// cases 1..: tampered frames x {sequential WriteTo, concurrent WriteTo, sequential Read}
func c05HugeCase(c *Ctx, k int64) {
	h := buildHuge()
	type plan struct {
		frame int // -1 valid
		conc  int
		read  bool
	}
	plans := []plan{{1, 1, false}, {2, 4, false}, {-1, 1, false}, {0, 4, false}, {1, 4, false}, {2, 1, true}, {0, 1, true}, {-1, 4, false}}
	p := plans[int(k)%len(plans)]
	frame, name := h.valid, "valid"
	if p.frame >= 0 {
		frame, name = h.tampered[p.frame], h.names[p.frame]
	}
	c.Tag(fmt.Sprintf("huge/%s/conc%d/read=%v", name, p.conc, p.read))
	var n int64
	var err error
	wr := c.Watch("Reader.huge", func() {
		r := lz4.NewReader(bytes.NewReader(frame))
		if err = r.Apply(lz4.ConcurrencyOption(p.conc)); err != nil {
			return
		}
		if !p.read {
			n, err = r.WriteTo(&countingWriter{})
			return
		}
		buf := make([]byte, 1<<20)
		for {
			m, e := r.Read(buf)
			n += int64(m)
			if e == io.EOF {
				return
			}
			if e != nil {
				err = e
				return
			}
		}
	})
	if wr.Panicked || wr.Deadlocked {
		return
	}
	c.Count("frames_longer_than_4GiB_read", 1)
	det := map[string]interface{}{"frame": name, "reader_conc": p.conc, "through_read": p.read, "content_bytes": h.total, "delivered": n, "frame_bytes": len(frame)}
	switch {
	case p.frame < 0 && err != nil:
		c.Count("valid_frame_longer_than_4GiB_refused", 1) // C02 / C13 territory: counted here
	case p.frame < 0:
		c.Count("valid_frame_longer_than_4GiB_accepted", 1)
	case err == nil:
		c.Violation("corrupt-frame-accepted/content-checksum/longer-than-4GiB", fmt.Sprintf("Reader(conc %d) read a frame of %d content bytes (%s) to a clean end of stream although its content checksum field is not the XXH32 of its content", p.conc, h.total, name), det)
	default:
		c.Count("tampered_frames_longer_than_4GiB_rejected", 1)
	}
	c.Cell(fmt.Sprintf("huge/%s/conc%d/read=%v/%s", name, p.conc, p.read, errClass(err)))
}
