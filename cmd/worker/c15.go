package main

import (
	"bytes"
	"errors"
	"fmt"
	"io"

	lz4 "github.com/pierrec/lz4/v4"

	"verif/internal/gen"
	"verif/internal/prng"
)

// C15 – I/O failures are reported faithfully and read fragmentation is
// irrelevant.  Fault enumeration: every call index of the sink / source.

type wScript struct {
	name  string
	steps []wstep
}

func c15Scripts(g *prng.Rng, repo string) []wScript {
	return []wScript{
		{"write-flush-write", []wstep{{data: gen.Text(g, repo, 100)}, {data: mixData(g, 70000), flush: true}, {data: mixData(g, 65536)}, {data: g.Bytes(300)}}},
		{"readfrom", []wstep{{data: mixData(g, 200000), rf: true}}},
		{"small-writes", []wstep{{data: g.Bytes(50), flush: true}, {data: g.Bytes(60), flush: true}, {data: gen.Text(g, repo, 700), flush: true}, {data: g.Bytes(10)}}},
		{"empty", nil},
		{"big-single-write", []wstep{{data: mixData(g, 300000)}}},
	}
}

var c15Cfgs = func() []wcfg {
	var cs []wcfg
	for _, conc := range []int{1, 4} {
		for _, bc := range []bool{false, true} {
			for _, sz := range []uint64{0, 999} {
				cs = append(cs, wcfg{bs: lz4.Block64Kb, bc: bc, cc: true, size: sz, conc: conc, level: lz4.Fast})
			}
		}
		cs = append(cs, wcfg{bs: lz4.Block64Kb, legacy: true, conc: conc, level: lz4.Fast})
		cs = append(cs, wcfg{bs: lz4.Block64Kb, cc: false, conc: conc, level: lz4.Level1})
	}
	return cs
}()

var c15Seeds []seedFrame

const c15ReaderModes = 6 // (conc 1|4) x (WriteTo, Read small, Read block)

func c15Counts(c *Ctx) (nW, nR, nF int64) {
	nW = int64(len(c15Cfgs) * 5 * 2) // config x script x {persistent, transient}
	nR = int64(len(c15Seeds)) * c15ReaderModes
	nF = int64(len(c15Seeds))
	return
}

func init() {
	register("C15", &PropDef{
		Setup: func(c *Ctx) {
			gen.LoadTexts(c.Repo)
			c15Seeds = buildSeeds(c, false)
		},
		Total: func(c *Ctx) int64 { a, b, d := c15Counts(c); return a + b + d },
		Run: func(c *Ctx, i int64) {
			nW, nR, _ := c15Counts(c)
			switch {
			case i < nW:
				c15Writer(c, i)
			case i < nW+nR:
				c15Reader(c, i-nW)
			default:
				c15Fragment(c, i-nW-nR)
			}
		},
	})
}

// runScript executes a write script the way a careful caller would: stop at the
// first call that returns an error, then Close (as a deferred Close does).
type scriptResult struct {
	errs        []error // every non-nil error returned, in order
	calls       []string
	sink        *gen.Sink
	panicky     bool
	hung        bool
	sinkAtClose []byte // sink contents when the first Close returned
}

func runScript(c *Ctx, cfg wcfg, sc wScript, sink *gen.Sink) scriptResult {
	res := scriptResult{sink: sink}
	wr := c.Watch("Writer-script", func() {
		w := lz4.NewWriter(sink)
		if err := w.Apply(cfg.opts()...); err != nil {
			res.errs = append(res.errs, fmt.Errorf("Apply: %w", err))
			return
		}
		failed := false
		for _, s := range sc.steps {
			var err error
			if s.rf {
				_, err = w.ReadFrom(bytes.NewReader(s.data))
				res.calls = append(res.calls, "ReadFrom")
			} else {
				_, err = writeRecycled(w, s.data)
				res.calls = append(res.calls, "Write")
			}
			if err != nil {
				res.errs = append(res.errs, err)
				failed = true
				break
			}
			if s.flush {
				res.calls = append(res.calls, "Flush")
				if err := w.Flush(); err != nil {
					res.errs = append(res.errs, err)
					failed = true
					break
				}
			}
		}
		_ = failed
		res.calls = append(res.calls, "Close")
		if err := w.Close(); err != nil {
			res.errs = append(res.errs, err)
		}
		res.sinkAtClose = append([]byte(nil), sink.Buf...)
		// What callers do next (a deferred second Close, another attempt to flush or write): whatever
		// these return, none may panic or hang (a panic is reported by Watch).
		res.calls = append(res.calls, "Close", "Flush", "Write", "Close")
		_ = w.Close()
		_ = w.Flush()
		_, _ = w.Write([]byte("after the failure"))
		_ = w.Close()
	})
	res.panicky = wr.Panicked
	res.hung = wr.Deadlocked
	if wr.Deadlocked {
		c.Violation("deadlock/writer-with-failing-sink", "a Writer call never returns after a sink failure: every goroutine inside the library is blocked", map[string]interface{}{"config": cfg.String(), "script": sc.name, "goroutines": wr.Dump})
	}
	return res
}

func c15Writer(c *Ctx, i int64) {
	transient := i%2 == 1
	k0 := int(i / 2)
	cfg := c15Cfgs[k0%len(c15Cfgs)]
	g := prng.Derive(c.Seed, prng.Hash("C15scripts"))
	sc := c15Scripts(g, c.Repo)[(k0/len(c15Cfgs))%5]
	// dry run: fault-free output and number of sink calls
	dry := runScript(c, cfg, sc, &gen.Sink{})
	if dry.panicky || dry.hung {
		return
	}
	if len(dry.errs) > 0 {
		c.Violation("fault-free-run-failed", fmt.Sprintf("script %s with %s returned %v on a healthy sink", sc.name, cfg, dry.errs[0]), nil)
		return
	}
	N := dry.sink.Calls
	good := dry.sinkAtClose
	mode := "seq"
	if cfg.conc != 1 {
		mode = "conc"
	}
	model := "persistent"
	if transient {
		model = "transient"
	}
	for k := 1; k <= N; k++ {
		if N > 400 && k > 40 && k < N-20 && k%(N/200+1) != 0 {
			continue
		}
		for _, partial := range []bool{false, true} {
			sink := &gen.Sink{FailFrom: k, Transient: transient, Partial: partial, Budget: N*4 + 1000}
			c.Tag(fmt.Sprintf("sink-fault/%s/%s", model, mode))
			res := runScript(c, cfg, sc, sink)
			c.Count("sink_fault_points", 1)
			if res.panicky || res.hung {
				continue
			}
			det := func() map[string]interface{} {
				var es []string
				for _, e := range res.errs {
					es = append(es, e.Error())
				}
				return map[string]interface{}{"config": cfg.String(), "script": sc.name, "failing_sink_call": k, "of": N, "partial_write": partial, "fault_model": model, "returned_errors": es, "calls": res.calls}
			}
			if len(sink.Errs) == 0 {
				c.Violation("sink-call-pattern-changed", fmt.Sprintf("the sink was called %d times in the dry run but fewer than %d times now", N, k), det())
				continue
			}
			first := sink.Errs[0]
			reported := false
			for _, e := range res.errs {
				if errors.Is(e, first) {
					reported = true
				}
			}
			if !reported {
				key := "sink-error-not-reported"
				if len(res.errs) > 0 {
					key = "sink-error-replaced"
				}
				c.Violation(key+"/"+model+"/"+mode, fmt.Sprintf("sink call %d of %d failed (%v) but no Write/ReadFrom/Flush/Close call returned that error (returned: %d error(s)) [%s, script %s]", k, N, first, len(res.errs), cfg, sc.name), det())
			}
			if !transient {
				if !bytes.HasPrefix(good, res.sinkAtClose) {
					c.Violation("sink-not-a-prefix/"+mode, fmt.Sprintf("after the sink failed at call %d, its contents (%d bytes) are not a prefix of the fault-free output (%d bytes) [%s, script %s]", k, len(res.sinkAtClose), len(good), cfg, sc.name), det())
				}
			}
			c.Cell(fmt.Sprintf("writer/%s/%s/%s/k=%s/partial=%v", cfg.cell(), sc.name, model, kClass(k, N), partial))
		}
	}
	if k0%5 == 0 && !transient {
		c.Sample(map[string]interface{}{"side": "writer", "config": cfg.String(), "script": sc.name, "sink_calls_enumerated": N, "fault_model": model})
	}
}

func kClass(k, n int) string {
	switch {
	case k == 1:
		return "first(header)"
	case k == n:
		return "last(trailer)"
	case k <= 4:
		return "early"
	case k >= n-3:
		return "late"
	default:
		return "middle"
	}
}

func c15Reader(c *Ctx, i int64) {
	s := &c15Seeds[i/c15ReaderModes]
	m := int(i % c15ReaderModes)
	conc := []int{1, 4}[m/3]
	mode := []int{rdWriteTo, rdSmall, rdBlock}[m%3]
	g := c.Rng(i)
	// dry run to count source calls
	dry := &gen.Source{Data: s.frame, Budget: 100000}
	rr := readWith(c, dry, conc, mode, s.cfg.blockMax(), g)
	if rr.panicky {
		return
	}
	if rr.err != nil || !bytes.Equal(rr.out, s.input) {
		c.Violation("fault-free-read-failed", fmt.Sprintf("seed %q does not decode with a healthy source: %v", s.name, rr.err), nil)
		return
	}
	N := dry.Calls
	mc := "seq"
	if conc != 1 {
		mc = "conc"
	}
	for k := 1; k <= N; k++ {
		for _, withData := range []bool{false, true} {
			// the look of the error value rotates (own type / wraps io.EOF / wraps io.ErrUnexpectedEOF / bare io.ErrUnexpectedEOF)
			ek := (k + b2i(withData) + int(i)) % gen.NumErrKinds
			src := &gen.Source{Data: s.frame, FailAt: k, FailData: withData, ErrKind: ek, Budget: 100000}
			c.Tag("source-fault/" + mc)
			res := readWith(c, src, conc, mode, s.cfg.blockMax(), g)
			c.Count("source_fault_points", 1)
			if res.panicky {
				continue
			}
			det := func() map[string]interface{} {
				return map[string]interface{}{"seed": s.name, "failing_source_call": k, "of": N, "with_data": withData, "reader_conc": conc, "read_mode": rdNames[mode], "err": fmt.Sprint(res.err), "delivered": len(res.out), "error_kind": []string{"plain", "wraps io.EOF", "wraps io.ErrUnexpectedEOF", "bare io.ErrUnexpectedEOF"}[ek]}
			}
			if len(src.Errs) == 0 {
				// the reader finished before the k-th call (possible when the failing call carried the last bytes)
				continue
			}
			switch {
			case res.err == nil:
				c.Violation("source-error-became-clean-eof/"+mc+"/"+rdNames[mode], fmt.Sprintf("the source failed at its call %d of %d but the Reader(conc %d, %s) reported a clean end of stream after %d bytes [seed %q]", k, N, conc, rdNames[mode], len(res.out), s.name), det())
			case ek == gen.ErrBareUnexpectedEOF && errors.Is(res.err, io.ErrUnexpectedEOF):
				// passed through
			case !isInjected(res.err, src.Errs):
				c.Violation("source-error-replaced/"+mc+"/"+rdNames[mode], fmt.Sprintf("the source failed at its call %d (%v) but the Reader(conc %d, %s) returned %v [seed %q]", k, src.Errs[0], conc, rdNames[mode], res.err, s.name), det())
			}
			if len(res.out) > len(s.input) || !bytes.Equal(res.out, s.input[:len(res.out)]) {
				c.Violation("delivered-bytes-not-a-prefix/"+mc, fmt.Sprintf("after a source failure at call %d the %d delivered bytes are not a prefix of the content [seed %q]", k, len(res.out), s.name), det())
			}
			c.Cell(fmt.Sprintf("reader/%s/conc%d/%s/k=%s/data=%v/errkind%d", s.name, conc, rdNames[mode], kClass(k, N), withData, ek))
		}
	}
	if i%13 == 0 {
		c.Sample(map[string]interface{}{"side": "reader", "seed": s.name, "source_calls_enumerated": N, "reader_conc": conc, "read_mode": rdNames[mode]})
	}
}

// readWith is readStream with a caller-supplied source.
func readWith(c *Ctx, src *gen.Source, conc, mode, blockMax int, g *prng.Rng) readResult {
	var res readResult
	wr := c.Watch("Reader", func() {
		r := lz4.NewReader(src)
		if err := r.Apply(lz4.ConcurrencyOption(conc)); err != nil {
			res.err = err
			return
		}
		if mode == rdWriteTo {
			var out bytes.Buffer
			_, err := r.WriteTo(&out)
			res.out, res.err = out.Bytes(), err
			return
		}
		k := 997
		if mode == rdBlock {
			k = blockMax + 3
		}
		buf := make([]byte, k)
		zero := 0
		for {
			n, err := r.Read(buf)
			res.out = append(res.out, buf[:n]...)
			for j := 0; j < n; j++ {
				buf[j] = 0xE3 // the caller owns buf between calls
			}
			if err == io.EOF {
				return
			}
			if err != nil {
				res.err = err
				return
			}
			if n == 0 {
				zero++
				if zero > 1000 {
					res.err = errNoProgress
					return
				}
			} else {
				zero = 0
			}
		}
	})
	res.panicky = wr.Panicked || wr.Deadlocked
	if wr.Deadlocked {
		c.Violation("deadlock/reader-with-failing-source", "a Reader call never returns after a source failure: every goroutine inside the library is blocked", map[string]interface{}{"goroutines": wr.Dump})
	}
	return res
}

// c15Fragment: decoding must not depend on how the source fragments its reads.
func c15Fragment(c *Ctx, i int64) {
	s := &c15Seeds[i]
	g := c.Rng(i)
	for _, conc := range []int{1, 4} {
		for _, mode := range []int{rdWriteTo, rdSmall, rdBlock} {
			for sm := 1; sm < gen.NumReadModes; sm++ {
				reps := 1
				if sm == gen.ReadRandom || sm == gen.ReadZeroMixed {
					reps = 3
				}
				for r := 0; r < reps; r++ {
					src := &gen.Source{Data: s.frame, Mode: sm, G: g, Budget: 10000 + 4*len(s.frame)}
					res := readWith(c, src, conc, mode, s.cfg.blockMax(), g)
					c.Count("fragmented_reads", 1)
					if res.panicky {
						continue
					}
					if res.err != nil || !bytes.Equal(res.out, s.input) {
						c.Violation(fmt.Sprintf("result-depends-on-read-fragmentation/mode%d", sm), fmt.Sprintf("seed %q read from a source in fragmentation mode %d (1=single bytes, 2=random sizes, 3=data together with EOF, 4=zero-length reads): Reader(conc %d, %s) returns %d bytes, err=%v; a plain source gives %d bytes", s.name, sm, conc, rdNames[mode], len(res.out), res.err, len(s.input)), map[string]interface{}{"seed": s.name, "source_mode": sm, "reader_conc": conc, "read_mode": rdNames[mode]})
					}
					c.Cell(fmt.Sprintf("fragment/%s/conc%d/%s/srcmode%d", s.name, conc, rdNames[mode], sm))
				}
			}
		}
	}
}
