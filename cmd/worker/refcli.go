package main

// Optional second opinion for C09: when the reference implementation's command line tool (`lz4`,
// by the format's author) is installed, a sample of the frames the Writer emitted - all of which the
// independent parser of internal/ref has already accepted - is also decoded by it.  It must decode
// them to the input.  Where the tool is missing nothing is judged (counter reference_cli_unavailable).

import (
	"bytes"
	"os/exec"
	"sync"
)

var (
	refCLIOnce sync.Once
	refCLIPath string
)

func refCLI() string {
	refCLIOnce.Do(func() {
		if p, err := exec.LookPath("lz4"); err == nil {
			if out, err := exec.Command(p, "--version").CombinedOutput(); err == nil && bytes.Contains(out, []byte("LZ4 command line interface")) {
				refCLIPath = p
			}
		}
	})
	return refCLIPath
}

// refCLIDecode returns what `lz4 -d -c` makes of the frame.
func refCLIDecode(frame []byte) (out []byte, stderr string, err error) {
	cmd := exec.Command(refCLIPath, "-d", "-c", "-q")
	cmd.Stdin = bytes.NewReader(frame)
	var o, e bytes.Buffer
	cmd.Stdout, cmd.Stderr = &o, &e
	err = cmd.Run()
	s := e.String()
	if len(s) > 300 {
		s = s[:300]
	}
	return o.Bytes(), s, err
}
