package main

import (
	"bytes"
	"encoding/binary"
	"fmt"
	"io"

	lz4 "github.com/pierrec/lz4/v4"

	"verif/internal/gen"
	"verif/internal/prng"
	"verif/internal/ref"
)

// Reader half of C17.

const (
	rApplyConc = iota
	rRead0
	rReadSmall
	rReadBig
	rReadAll
	rWriteTo
	rSize
	rResetA
	rResetB
	rResetC
	rResetD // a valid frame with dependent blocks (leaves a 64 KiB history in the Reader)
	rResetE // invalid on its own: dependent blocks, the first block's match reaches before the start of the frame
	rResetF // the same with independent blocks
	numROps
)

var rOpNames = []string{"Apply(Concurrency)", "Read(0)", "Read(100)", "Read(70000)", "ReadUntilEOF", "WriteTo", "Size", "Reset(frameA)", "Reset(legacyB)", "Reset(checksummedC)", "Reset(linkedD)", "Reset(invalidLinkedE)", "Reset(invalidF)"}

type rFrame struct {
	name    string
	frame   []byte
	content []byte
	size    uint64
	legacy  bool
	invalid bool // no Reader may deliver a byte of it or end cleanly (a new Reader returns an error)
}

var c17Frames []rFrame

func buildReaderFrames(c *Ctx) []rFrame {
	g := prng.Derive(c.Seed, prng.Hash("c17frames"))
	mk := func(name string, cfg wcfg, steps []wstep) rFrame {
		frame, input, err := writeScript(cfg, steps)
		if err != nil {
			fatal("cannot build reader frame %s: %v", name, err)
		}
		pf, perr := ref.ParseFrame(frame, ref.ParseOpts{EnforceBlockMax: true})
		if perr != nil || !bytes.Equal(pf.Content, input) {
			// the Writer is broken (C09's subject); the Reader cannot be judged on this frame
			c.Count("reader_frames_rejected_by_reference", 1)
		}
		if cfg.legacy && pf != nil && legacyAmbiguous(pf) {
			c.Count("reader_frames_legacy_ambiguous", 1)
		}
		return rFrame{name: name, frame: frame, content: input, size: cfg.size, legacy: cfg.legacy}
	}
	a := mk("A", wcfg{bs: lz4.Block64Kb, cc: true, size: 300, conc: 1}, []wstep{{data: g.Bytes(100), flush: true}, {data: gen.Text(g, c.Repo, 100), flush: true}, {data: runsData(g, 100)}})
	b := mk("B", wcfg{bs: lz4.Block64Kb, legacy: true, conc: 1}, []wstep{{data: gen.Text(g, c.Repo, 2500)}})
	cc := mk("C", wcfg{bs: lz4.Block64Kb, bc: true, cc: true, conc: 1}, []wstep{{data: append(mixData(g, 3*65536), g.Bytes(333)...)}})
	// D: dependent blocks from the independent encoder
	dContent, dFrame, _ := ref.EncodeLinkedFrame(g, ref.LinkedOpts{BSCode: 4, Total: 3000, ContentChecksum: true, SmallBlocks: true, RawPercent: 20})
	if pf, err := ref.ParseFrame(dFrame, ref.ParseOpts{EnforceBlockMax: true}); err != nil || !bytes.Equal(pf.Content, dContent) {
		fatal("reference linked frame does not parse: %v", err)
	}
	d := rFrame{name: "D", frame: dFrame, content: dContent}
	// E / F: one block "1 literal, match offset 100 length 20, 5 literals": the match reaches before the start of
	// the frame, which only data left over from an earlier stream could satisfy
	bad := func(name string, flg byte) rFrame {
		f := binary.LittleEndian.AppendUint32(nil, ref.MagicFrame)
		f = append(f, flg, 0x40)
		f = append(f, ref.HeaderChecksum(f[4:6]))
		blk := []byte{0x1F, 'a', 100, 0, 1, 0x50, 'v', 'w', 'x', 'y', 'z'}
		f = binary.LittleEndian.AppendUint32(f, uint32(len(blk)))
		f = append(f, blk...)
		f = append(f, 0, 0, 0, 0)
		if _, err := ref.ParseFrame(f, ref.ParseOpts{}); err == nil {
			fatal("reference parser accepts the invalid frame %s", name)
		}
		return rFrame{name: name, frame: f, invalid: true}
	}
	return []rFrame{a, b, cc, d, bad("E", 0x40), bad("F", 0x60)}
}

type rEpoch struct {
	fr        *rFrame
	src       *gen.Source
	delivered int
	eof       bool
	eofPos    int
	failed    bool
	started   bool
	tainted   bool // follows a mid-stream Reset of a concurrent Reader (K10 history)
	afterBC   bool // a frame with block checksums was read before and this is the legacy frame (F13 history)
}

func runReaderSeq(c *Ctx, i int64, seq []int, conc bool, trailing bool) {
	mc := mcName(conc)
	num := 1
	if conc {
		num = 4
	}
	g := c.Rng(i)
	mkSrc := func(fr *rFrame) *gen.Source {
		data := fr.frame
		if trailing && !fr.legacy {
			// bytes after the frame: garbage, or the start of another frame
			if g.Bool() {
				data = append(append([]byte{}, data...), g.Bytes(16)...)
			} else {
				data = append(append([]byte{}, data...), c17Frames[0].frame...)
			}
		}
		return &gen.Source{Data: data, Budget: 3000 + 3*len(data)}
	}
	ep := &rEpoch{fr: &c17Frames[0]}
	ep.src = mkSrc(ep.fr)
	var r *lz4.Reader
	var results []string
	det := func() map[string]interface{} {
		return map[string]interface{}{"sequence": seqString(rOpNames, seq), "mode": mc, "trailing_bytes": trailing, "results": results, "frame": ep.fr.name}
	}
	if c.Guard("NewReader", func() {
		r = lz4.NewReader(ep.src)
		if err := r.Apply(lz4.ConcurrencyOption(num)); err != nil {
			c.Violation("setup-apply-failed", err.Error(), nil)
		}
	}) {
		return
	}
	key := func(k string) string {
		if ep.tainted {
			return "after-midstream-reset-of-concurrent-reader"
		}
		if ep.afterBC && ep.fr.legacy {
			return k + "/legacy-after-block-checksum-frame/" + mc
		}
		return k + "/" + mc
	}
	sawBC := false
	hung := false
	guard := func(what string, fn func()) bool {
		if hung {
			return true
		}
		wr := c.Watch(what, fn)
		if wr.Deadlocked {
			hung = true
			c.Violation(key("deadlock/"+what), fmt.Sprintf("%s never returns: every goroutine inside the library is blocked [%s]", what, seqString(rOpNames, seq)), map[string]interface{}{"sequence": seqString(rOpNames, seq), "mode": mc, "goroutines": wr.Dump})
			return true
		}
		return wr.Panicked
	}
	// absorb checks bytes handed out by Read/WriteTo against the model
	absorb := func(p []byte, what string) bool {
		if ep.delivered+len(p) > len(ep.fr.content) || !bytes.Equal(p, ep.fr.content[ep.delivered:ep.delivered+len(p)]) {
			c.Violation(key("wrong-data"), fmt.Sprintf("%s returned %d bytes at content offset %d that differ from the frame's content (%d bytes) [%s]", what, len(p), ep.delivered, len(ep.fr.content), seqString(rOpNames, seq)), det())
			ep.failed = true
			return false
		}
		ep.delivered += len(p)
		return true
	}
	atEOF := func(what string) {
		if ep.delivered != len(ep.fr.content) {
			c.Violation(key("clean-end-before-content-complete"), fmt.Sprintf("%s reported the end of the stream after %d of %d content bytes [%s]", what, ep.delivered, len(ep.fr.content), seqString(rOpNames, seq)), det())
			ep.failed = true
		}
		ep.eof = true
		ep.eofPos = ep.src.Pos
		c.Count("streams_read_to_eof", 1)
	}
	readOnce := func(buf []byte, what string) (stop bool) {
		var n int
		var err error
		pos0 := ep.src.Pos
		if guard("Reader.Read", func() { n, err = r.Read(buf) }) {
			ep.failed = true
			results = append(results, what+"=panic")
			return true
		}
		results = append(results, fmt.Sprintf("%s=(%d,%v)", what, n, err))
		if n < 0 || n > len(buf) {
			c.Violation(key("read-count-out-of-range"), fmt.Sprintf("Read(%d) returned n=%d", len(buf), n), det())
			ep.failed = true
			return true
		}
		if ep.fr.invalid && !ep.failed {
			// Reset makes the object indistinguishable from a new one: a new Reader rejects this frame
			if n > 0 || err == nil || err == io.EOF {
				c.Violation(key("reset-differs-from-new/invalid-frame-accepted"), fmt.Sprintf("%s on a frame whose first match reaches before the start of the frame returned (%d, %v); a new Reader returns an error and no data: bytes left over from the previous stream were used [%s]", what, n, err, seqString(rOpNames, seq)), det())
			}
			c.Count("invalid_frame_reads_checked", 1)
			ep.failed = true
			return true
		}
		if ep.eof && !ep.failed {
			// clause (f)
			if n != 0 || err != io.EOF {
				c.Violation(key("read-after-end-of-stream/not-eof"), fmt.Sprintf("after the end of the stream, %s returned (%d, %v) instead of (0, io.EOF) [%s]", what, n, err, seqString(rOpNames, seq)), det())
				ep.failed = true
			}
			if ep.src.Pos != pos0 {
				c.Violation(key("read-after-end-of-stream/consumes-source"), fmt.Sprintf("after the end of the stream, %s consumed %d more source bytes [%s]", what, ep.src.Pos-pos0, seqString(rOpNames, seq)), det())
				ep.failed = true
			}
			c.Count("reads_after_eof_checked", 1)
			return true
		}
		if ep.failed {
			return true
		}
		ep.started = true
		if !absorb(buf[:n], what) {
			return true
		}
		if err == io.EOF {
			atEOF(what)
			return true
		}
		if err != nil {
			c.Violation(key("valid-frame-read-error"), fmt.Sprintf("%s on a valid frame returned %v [%s]", what, err, seqString(rOpNames, seq)), det())
			ep.failed = true
			return true
		}
		return false
	}
	for _, op := range seq {
		if hung {
			break
		}
		tag := ""
		if conc && op >= rResetA && op <= rResetF && ep.started && !ep.eof {
			tag = "reset-midstream/concurrent"
		}
		c.Tag(tag)
		switch op {
		case rApplyConc:
			var err error
			guard("Reader.Apply", func() { err = r.Apply(lz4.ConcurrencyOption(num)) })
			results = append(results, fmt.Sprintf("Apply=%v", err))
			if err != nil {
				// a refused Apply puts the object in its error state (documented state machine): no further claims
				ep.failed = true
			}
		case rRead0:
			var n int
			var err error
			pos0 := ep.src.Pos
			wasEOF := ep.eof
			if !guard("Reader.Read", func() { n, err = r.Read(nil) }) {
				results = append(results, fmt.Sprintf("Read(0)=(%d,%v)", n, err))
				if n != 0 {
					c.Violation(key("read-count-out-of-range"), fmt.Sprintf("Read(nil) returned n=%d", n), det())
				}
				if wasEOF && ep.src.Pos != pos0 && !ep.failed {
					c.Violation(key("read-after-end-of-stream/consumes-source"), "Read(nil) after the end of the stream consumed source bytes", det())
				}
				if !wasEOF && err == nil {
					ep.started = true
				}
				if err != nil && err != io.EOF {
					ep.failed = true
				}
			}
		case rReadSmall:
			readOnce(make([]byte, 100), "Read(100)")
		case rReadBig:
			readOnce(make([]byte, 70000), "Read(70000)")
		case rReadAll:
			buf := make([]byte, 1000)
			for k := 0; k < 2000; k++ {
				if readOnce(buf, "Read(1000)") {
					break
				}
			}
			if len(results) > 12 {
				results = append(results[:6], results[len(results)-4:]...)
			}
		case rWriteTo:
			var out bytes.Buffer
			var n int64
			var err error
			pos0 := ep.src.Pos
			fresh := !ep.started && !ep.eof && !ep.failed
			if guard("Reader.WriteTo", func() { n, err = r.WriteTo(&out) }) {
				ep.failed = true
				break
			}
			results = append(results, fmt.Sprintf("WriteTo=(%d,%v)", n, err))
			if ep.fr.invalid && !ep.failed {
				if out.Len() > 0 || err == nil {
					c.Violation(key("reset-differs-from-new/invalid-frame-accepted"), fmt.Sprintf("WriteTo on a frame whose first match reaches before the start of the frame returned (%d, %v) and wrote %d bytes; a new Reader returns an error and no data [%s]", n, err, out.Len(), seqString(rOpNames, seq)), det())
				}
				c.Count("invalid_frame_reads_checked", 1)
				ep.failed = true
				break
			}
			if ep.eof && !ep.failed && ep.src.Pos != pos0 {
				c.Violation(key("read-after-end-of-stream/consumes-source"), fmt.Sprintf("WriteTo after the end of the stream consumed %d more source bytes", ep.src.Pos-pos0), det())
			}
			if fresh {
				ep.started = true
				if int(n) != out.Len() {
					c.Violation(key("writeto-count"), fmt.Sprintf("WriteTo returned n=%d but wrote %d bytes", n, out.Len()), det())
				}
				if absorb(out.Bytes(), "WriteTo") {
					if err == nil {
						atEOF("WriteTo")
					} else {
						c.Violation(key("valid-frame-read-error"), fmt.Sprintf("WriteTo on a valid frame returned %v [%s]", err, seqString(rOpNames, seq)), det())
						ep.failed = true
					}
				}
			} else if !ep.eof {
				// WriteTo after a partial Read etc.: unspecified, but whatever it hands out must not be garbage presented as success
				if err == nil && out.Len() > 0 && !ep.failed {
					absorb(out.Bytes(), "WriteTo")
				}
				if err != nil {
					ep.failed = true
				}
			}
		case rSize:
			var sz int
			guard("Reader.Size", func() { sz = r.Size() })
			results = append(results, fmt.Sprintf("Size=%d", sz))
			if ep.started && !ep.failed && !ep.fr.invalid && uint64(sz) != ep.fr.size {
				c.Violation(key("size-wrong"), fmt.Sprintf("Size() = %d after the header was read; the frame says %d [%s]", sz, ep.fr.size, seqString(rOpNames, seq)), det())
			}
		case rResetA, rResetB, rResetC, rResetD, rResetE, rResetF:
			fr := &c17Frames[op-rResetA]
			midstream := ep.started && !ep.eof
			if ep.started && ep.fr.name == "C" {
				sawBC = true
			}
			ne := &rEpoch{fr: fr}
			ne.src = mkSrc(fr)
			ne.tainted = ep.tainted || (conc && midstream)
			ne.afterBC = sawBC
			guard("Reader.Reset", func() { r.Reset(ne.src) })
			results = append(results, "Reset("+fr.name+")")
			ep = ne
			c.Count("reader_resets", 1)
		}
	}
	if !hung && conc {
		// release the pipeline goroutines and buffers of an abandoned concurrent Reader: drain it, or, if it
		// is in its error state (a refused Apply, a failed read) Reset it, which stops the pipeline
		// (not judged: every judged call is part of the history above)
		ep.src.Budget += 20000 + 10*len(ep.src.Data)
		c.Watch("drain", func() {
			defer func() { _ = recover() }()
			_, _ = io.Copy(io.Discard, r)
			r.Reset(bytes.NewReader(nil))
		})
	}
	c.Count("reader_sequences", 1)
	t := ""
	if trailing {
		t = "+trailing"
	}
	c.Cell("reader/" + mc + t + "/" + rShapeOf(seq))
	if i%7001 == 0 {
		c.Sample(map[string]interface{}{"object": "Reader", "mode": mc, "trailing_bytes": trailing, "sequence": seqString(rOpNames, seq)})
	}
}

func rShapeOf(seq []int) string {
	b := make([]byte, 0, 8)
	for k, o := range seq {
		if k >= 6 {
			b = append(b, '+')
			break
		}
		b = append(b, "ArrrrWSxxxdee"[o])
	}
	return string(b)
}
