package main

import (
	"bytes"
	"fmt"
	"sort"

	lz4 "github.com/pierrec/lz4/v4"

	"verif/internal/gen"
	"verif/internal/mon"
	"verif/internal/prng"
	"verif/internal/ref"
)

// Shared machinery for C01 (round trip), C10 (strict validity), C11
// (destination contract) and the block half of C14 (determinism).

var hcDepths = []int{0, 1, 2, 3, 4, 16, int(lz4.Level1), int(lz4.Level2), int(lz4.Level3), int(lz4.Level4), int(lz4.Level5),
	int(lz4.Level6), int(lz4.Level7), int(lz4.Level8), int(lz4.Level9), 65537, 1 << 20}

type entry struct {
	name  string
	depth int // -1: fast
	call  func(src, dst []byte) (int, error)
}

type compState struct {
	fastReused *lz4.Compressor
	hcReused   *lz4.CompressorHC
	arena      *mon.Arena
}

var cs compState

func compSetup(c *Ctx) {
	cs.fastReused = new(lz4.Compressor)
	cs.hcReused = new(lz4.CompressorHC)
	gen.LoadTexts(c.Repo)
}

func depthName(d int) string {
	if d < 0 {
		return "fast"
	}
	return fmt.Sprintf("hc%d", d)
}

func fastEntries() []entry {
	return []entry{
		{"fast/pkg", -1, func(s, d []byte) (int, error) { return lz4.CompressBlock(s, d, nil) }},
		{"fast/fresh", -1, func(s, d []byte) (int, error) { return new(lz4.Compressor).CompressBlock(s, d) }},
		{"fast/reused", -1, func(s, d []byte) (int, error) { return cs.fastReused.CompressBlock(s, d) }},
	}
}

func hcEntry(kind string, depth int) entry {
	switch kind {
	case "pkg":
		return entry{"hc/pkg", depth, func(s, d []byte) (int, error) {
			return lz4.CompressBlockHC(s, d, lz4.CompressionLevel(depth), nil, nil)
		}}
	case "fresh":
		return entry{"hc/fresh", depth, func(s, d []byte) (int, error) {
			h := &lz4.CompressorHC{Level: lz4.CompressionLevel(depth)}
			return h.CompressBlock(s, d)
		}}
	}
	return entry{"hc/reused", depth, func(s, d []byte) (int, error) {
		cs.hcReused.Level = lz4.CompressionLevel(depth)
		return cs.hcReused.CompressBlock(s, d)
	}}
}

// effDepth is the number of chain steps the HC search may take per position.
func effDepth(d int) int {
	if d <= 0 || d > 65536 {
		return 65536
	}
	return d
}

// capForDepth bounds the source size for deep HC searches on data whose hash
// chains are long (cost is about depth x length); sizes are cut, not skipped.
func capForDepth(class string, n, depth int, tier string) int {
	ed := effDepth(depth)
	budget := 40_000_000 // chain steps
	if tier == "thorough" {
		budget = 400_000_000
	}
	switch class {
	case "random", "windowedge", "tiny", "lengthcodes", "tailrepeat":
		return n // chains are short on incompressible data
	}
	if ed <= 64 {
		return n
	}
	lim := budget / ed * 16
	if lim < 4096 {
		lim = 4096
	}
	if n > lim {
		return lim
	}
	return n
}

// selectEntries picks the compressor entry points for case i.
func selectEntries(c *Ctx, i int64, g *prng.Rng, all bool) []entry {
	es := fastEntries()
	if all {
		for _, d := range hcDepths {
			es = append(es, hcEntry("pkg", d), hcEntry("fresh", d), hcEntry("reused", d))
		}
		return es
	}
	// three HC entry points at rotating depths, plus one random depth
	k := int(i)
	es = append(es,
		hcEntry("pkg", hcDepths[k%len(hcDepths)]),
		hcEntry("fresh", hcDepths[(k/3+5)%len(hcDepths)]),
		hcEntry("reused", hcDepths[(k/7+11)%len(hcDepths)]),
		hcEntry([]string{"pkg", "fresh", "reused"}[g.N(3)], hcDepths[g.N(len(hcDepths))]))
	return es
}

type srcCase struct {
	data  []byte
	class string
	size  string
	all   bool // run every entry point and depth
}

// ---- case lists --------------------------------------------------------------

type compPlan struct {
	nTiny, nAB, nEdge, nLen, nEnd, nRand, nLarge int64
}

func planFor(c *Ctx, prop string) compPlan {
	p := compPlan{nTiny: 41 * 6, nEdge: int64(len(gen.EdgeDistances) * 9), nLen: int64(len(gen.LitClasses) * len(gen.MatchClasses)), nEnd: 68 * 4}
	thorough := c.Tier == "thorough"
	switch prop {
	case "C01", "C10":
		p.nAB, p.nRand, p.nLarge = int64(gen.ABCount(12)), 6000, 80
		if thorough {
			p.nAB, p.nRand, p.nLarge = int64(gen.ABCount(17)), 60000, 600
			if prop == "C10" {
				// eight destination sizes per entry point: keep the thorough tier within ~30 min
				p.nAB, p.nRand, p.nLarge = int64(gen.ABCount(15)), 20000, 200
			}
		}
	case "C11":
		p.nAB, p.nRand, p.nLarge = int64(gen.ABCount(8)), 1200, 8
		p.nEdge = 0
		if thorough {
			p.nAB, p.nRand, p.nLarge = int64(gen.ABCount(11)), 20000, 60
			p.nEdge = int64(len(gen.EdgeDistances))
		}
	case "C14":
		p.nAB, p.nRand, p.nLarge = int64(gen.ABCount(7)), 1500, 10
		if thorough {
			p.nAB, p.nRand, p.nLarge = int64(gen.ABCount(10)), 30000, 100
		}
	}
	return p
}

func (p compPlan) total() int64 {
	return p.nTiny + p.nAB + p.nEdge + p.nLen + p.nEnd + p.nRand + p.nLarge
}

func (p compPlan) source(c *Ctx, i int64) srcCase {
	g := c.Rng(i)
	switch {
	case i < p.nTiny:
		n, kind := int(i)/6, int(i)%6
		return srcCase{gen.Small(g, n, kind), "tiny", fmt.Sprintf("len=%d", n), true}
	}
	i -= p.nTiny
	if i < p.nAB {
		b := gen.AB(int(i))
		return srcCase{b, "ab", fmt.Sprintf("len=%d", len(b)), len(b) <= 9}
	}
	i -= p.nAB
	if i < p.nEdge {
		d := gen.EdgeDistances[int(i)%len(gen.EdgeDistances)]
		k := int(i) / len(gen.EdgeDistances)
		alen := []int{6, 8, 16}[k%3]
		lead := []int{0, 7, 65536 - 40}[(k/3)%3]
		return srcCase{gen.WindowEdge(g, d, alen, lead, 20), "windowedge", fmt.Sprintf("d=%d", d), false}
	}
	i -= p.nEdge
	if i < p.nLen {
		ll := gen.LitClasses[int(i)%len(gen.LitClasses)]
		ml := gen.MatchClasses[int(i)/len(gen.LitClasses)]
		return srcCase{gen.LengthCodes(g, ll, ml, 2), "lengthcodes", fmt.Sprintf("lit=%d", ll), false}
	}
	i -= p.nLen
	if i < p.nEnd {
		n := 13 + int(i)/4
		var b []byte
		switch int(i) % 4 {
		case 0:
			b = bytes.Repeat([]byte{byte(g.Next())}, n)
		case 1:
			b = gen.Periodic(g, n, 2+g.N(6))
		case 2:
			b = gen.TailRepeat(g, n, 4+g.N(10))
		default:
			b = bytes.Repeat([]byte{byte(g.Next())}, n)
			copy(b, g.Bytes(1+g.N(6)))
		}
		return srcCase{b, "endrules", fmt.Sprintf("len=%d", n), true}
	}
	i -= p.nEnd
	if i < p.nRand {
		max := 300000
		if g.N(10) == 0 {
			max = 1 << 20
		}
		b, cl := gen.DrawSource(g, c.Repo, max)
		return srcCase{b, cl.Name, cl.Size, false}
	}
	// large sources: 64 KiB .. 4 MiB
	b, cl := gen.DrawSource(g, c.Repo, 4<<20)
	for tries := 0; len(b) < 65536 && tries < 20; tries++ {
		b, cl = gen.DrawSource(g, c.Repo, 4<<20)
	}
	return srcCase{b, cl.Name + "-large", cl.Size, false}
}

// ---- C01 / C10 ----------------------------------------------------------------

func init() {
	register("C01", &PropDef{
		Setup: compSetup,
		Total: func(c *Ctx) int64 { return planFor(c, "C01").total() },
		Run:   func(c *Ctx, i int64) { roundTripCase(c, i, "C01") },
	})
	register("C10", &PropDef{
		Setup: compSetup,
		Total: func(c *Ctx) int64 { return planFor(c, "C10").total() },
		Run:   func(c *Ctx, i int64) { roundTripCase(c, i, "C10") },
	})
}

func blockFeatures(c *Ctx, st ref.BlockStats, srcLen int) {
	if st.Off65535 > 0 {
		c.Count("blocks_with_offset_65535", 1)
	}
	if st.Off65534 > 0 {
		c.Count("blocks_with_offset_65534", 1)
	}
	if st.OffGT32K > 0 {
		c.Count("blocks_with_offset_gt_32768", 1)
	}
	if st.LongLit2 > 0 {
		c.Count("blocks_with_multibyte_literal_len", 1)
	}
	if st.LongMatch2 > 0 {
		c.Count("blocks_with_multibyte_match_len", 1)
	}
	if st.MatchAfter64K > 0 {
		c.Count("blocks_with_match_after_64K", 1)
	}
	if st.Matches > 0 {
		c.Count("blocks_with_matches", 1)
		if st.LastLitLen == 5 {
			c.Count("blocks_ending_with_exactly_5_literals", 1)
		}
		if srcLen-st.LastMatchStart == 12 {
			c.Count("blocks_last_match_exactly_12_before_end", 1)
		}
	}
}

func roundTripCase(c *Ctx, i int64, prop string) {
	p := planFor(c, prop)
	sc := p.source(c, i)
	g := c.Rng(i, 77)
	all := sc.all || (c.Tier == "thorough" && len(sc.data) <= 4096)
	es := selectEntries(c, i, g, all)
	out := make([]byte, len(sc.data))
	for _, e := range es {
		src := sc.data
		if e.depth >= 0 {
			src = src[:capForDepth(sc.class, len(src), e.depth, c.Tier)]
		}
		bound := lz4.CompressBlockBound(len(src))
		dlens := []int{bound}
		if prop == "C10" {
			// partial successes: smaller destinations must still give strictly valid blocks;
			// the sizes around the achievable size n* are where "just fits" happens
			dlens = append(dlens, len(src), len(src)/2+8, bound-1, bound+5)
			probe := make([]byte, bound)
			var nstar int
			if !c.Guard(e.name, func() { nstar, _ = e.call(src, probe) }) && nstar > 0 {
				dlens = append(dlens, nstar, nstar+1, nstar-1)
			}
		} else if g.N(4) == 0 {
			dlens = append(dlens, bound+1+g.N(64))
		}
		if e.name != "fast/fresh" && e.name != "hc/fresh" && len(src) > 16 && (int(i)+e.depth)%3 == 0 {
			// real history for the reused / pooled objects: a call that fails on a too-small
			// destination (the HC compressor reports that by a recovered panic mid-way)
			short := make([]byte, g.Pick(1, 8, len(src)/8+4, len(src)/3+4))
			c.Guard(e.name, func() { e.call(src, short) })
			c.Count("failed_calls_in_history", 1)
		}
		for _, dl := range dlens {
			if dl < 0 {
				continue
			}
			dst := make([]byte, dl)
			var n int
			var err error
			if c.Guard(e.name, func() { n, err = e.call(src, dst) }) {
				continue
			}
			c.Count("compress_calls", 1)
			det := func() map[string]interface{} {
				return map[string]interface{}{"entry": e.name, "depth": e.depth, "class": sc.class, "srclen": len(src), "dstlen": dl, "n": n, "err": fmt.Sprint(err), "src": hexs(src)}
			}
			if dl >= bound && (err != nil || n <= 0) {
				c.ViolationAs("C01", "compress-fails-at-bound/"+e.name, fmt.Sprintf("%s(%s, %d bytes) into %d >= bound %d returned n=%d err=%v", e.name, depthName(e.depth), len(src), dl, bound, n, err), det())
				continue
			}
			if n <= 0 || err != nil || n > dl {
				continue // partial failure with a small destination: C11's subject
			}
			blk := dst[:n]
			// C10: strict validity + decodes to the source by the reference
			st, verr := ref.ValidateBlockStrict(blk, src)
			if verr != nil {
				key := "block-not-strictly-valid/" + e.name
				if prop == "C01" {
					// for C01 only the round trip counts; strictness is reported as a note for C10
					c.ViolationAs("C10", key, fmt.Sprintf("%s(%s): %v", e.name, depthName(e.depth), verr), det())
				} else {
					c.Violation(key, fmt.Sprintf("%s(%s) src %d bytes dst %d: %v", e.name, depthName(e.depth), len(src), dl, verr), det())
				}
			}
			blockFeatures(c, st, len(src))
			if prop == "C01" || dl >= bound {
				// C01: the library's own decoder must return exactly the source
				o := out[:len(src)]
				for k := range o {
					o[k] = 0xEE
				}
				var dn int
				var derr error
				if !c.Guard("UncompressBlock", func() { dn, derr = lz4.UncompressBlock(blk, o) }) {
					if derr != nil || dn != len(src) || !bytes.Equal(o[:dn], src) {
						c.ViolationAs("C01", "roundtrip-mismatch/"+e.name, fmt.Sprintf("%s(%s): UncompressBlock of the %d-byte block gives n=%d err=%v equal=%v (source %d bytes)", e.name, depthName(e.depth), n, dn, derr, derr == nil && dn == len(src) && bytes.Equal(o[:dn], src), len(src)), det())
					}
				}
				if prop == "C01" && verr != nil {
					// the reference decoder's view of the round trip
					ro, v, _ := ref.DecodeBlock(blk, nil, len(src))
					if !v.Accept() || !bytes.Equal(ro, src) {
						c.Violation("roundtrip-mismatch-reference/"+e.name, fmt.Sprintf("%s(%s): reference decoder: %s, equal=%v", e.name, depthName(e.depth), v, bytes.Equal(ro, src)), det())
					}
				}
			}
			c.Cell(fmt.Sprintf("%s/%s/%s/%s/matches=%v", sc.class, sc.size, e.name, depthName(e.depth), st.Matches > 0))
			if st.Matches > 0 && i%97 == 0 {
				c.Sample(map[string]interface{}{"class": sc.class, "srclen": len(src), "entry": e.name, "depth": e.depth, "dstlen": dl, "n": n, "matches": st.Matches, "max_offset": st.MaxOffset})
			}
		}
	}
}

// ---- C11 ---------------------------------------------------------------------

func init() {
	register("C11", &PropDef{
		Setup: func(c *Ctx) {
			compSetup(c)
			cs.arena = mon.NewArena("dst", 1<<20)
		},
		Total: func(c *Ctx) int64 { return planFor(c, "C11").total() },
		Run:   c11Case,
	})
}

// seqBoundaries walks an encoded block and returns the output offsets at which the parts of its
// sequences end (length bytes, literals, offset, match-length bytes).  The compressors test the
// room left in dst once per part: destination lengths equal to these offsets (and one less) are
// the lengths at which such a test is decided by a single byte.
func seqBoundaries(blk []byte, maxSeq int) []int {
	var out []int
	p, seq := 0, 0
	for p < len(blk) {
		tok := blk[p]
		p++
		ll := int(tok >> 4)
		if ll == 15 {
			for p < len(blk) {
				v := int(blk[p])
				p++
				ll += v
				if v != 255 {
					break
				}
			}
		}
		out = append(out, p)
		p += ll
		out = append(out, p)
		if p >= len(blk) {
			break
		}
		p += 2
		out = append(out, p)
		if tok&15 == 15 {
			for p < len(blk) {
				v := blk[p]
				p++
				if v != 255 {
					break
				}
			}
			out = append(out, p)
		}
		seq++
	}
	// the first maxSeq sequences and the last three (the end of the last match sequence is where
	// the final literals start: its room check is a boundary of its own)
	if len(out) > 4*maxSeq+12 {
		out = append(out[:4*maxSeq:4*maxSeq], out[len(out)-12:]...)
	}
	return out
}

func c11Lens(c *Ctx, g *prng.Rng, srcLen, nstar, bound int, encoded []byte) []int {
	fullSweep := 400
	if c.Tier == "thorough" {
		fullSweep = 3000
	}
	set := map[int]bool{}
	if bound <= fullSweep {
		for l := 0; l <= bound+3; l++ {
			set[l] = true
		}
	} else {
		for _, l := range []int{0, 1, 2, nstar - 2, nstar - 1, nstar, nstar + 1, nstar + 2, srcLen - 1, srcLen, srcLen + 1, bound - 1, bound, bound + 1, bound + 7} {
			set[l] = true
		}
		k := 24
		if c.Tier == "thorough" {
			k = 100
		}
		maxSeq := 10
		if srcLen <= 16384 || c.Tier == "thorough" {
			maxSeq = 40
		}
		for _, off := range seqBoundaries(encoded, maxSeq) {
			set[off-2], set[off-1], set[off] = true, true, true
		}
		for j := 0; j < k; j++ {
			if nstar > 16 && g.Bool() {
				set[nstar-1-g.N(minInt(nstar-1, 600))] = true // just below the achievable size
			} else {
				set[g.N(bound+1)] = true
			}
		}
	}
	var ls []int
	for l := range set {
		if l >= 0 {
			ls = append(ls, l)
		}
	}
	sort.Ints(ls)
	return ls
}

func minInt(a, b int) int {
	if a < b {
		return a
	}
	return b
}

func c11Case(c *Ctx, i int64) {
	p := planFor(c, "C11")
	sc := p.source(c, i)
	g := c.Rng(i, 78)
	if len(sc.data) > 1<<20 {
		sc.data = sc.data[:1<<20]
	}
	var es []entry
	es = append(es, fastEntries()[int(i)%3])
	es = append(es, hcEntry([]string{"pkg", "fresh", "reused"}[int(i/3)%3], hcDepths[int(i)%len(hcDepths)]))
	if sc.all {
		es = append(fastEntries(), hcEntry("pkg", 0), hcEntry("fresh", int(lz4.Level1)), hcEntry("reused", 3))
	}
	for _, e := range es {
		src := sc.data
		if e.depth >= 0 {
			src = src[:capForDepth(sc.class, len(src), e.depth, c.Tier)]
		}
		bound := lz4.CompressBlockBound(len(src))
		// size achieved with a full-size destination
		full := make([]byte, bound)
		var nstar int
		var ferr error
		if c.Guard(e.name, func() { nstar, ferr = e.call(src, full) }) {
			continue
		}
		if ferr != nil || nstar <= 0 {
			c.Violation("zero-or-error-at-bound/"+e.name, fmt.Sprintf("%s(%s): len(dst)=bound=%d returned n=%d err=%v", e.name, depthName(e.depth), bound, nstar, ferr),
				map[string]interface{}{"entry": e.name, "depth": e.depth, "src": hexs(src)})
			continue
		}
		lens := c11Lens(c, g, len(src), nstar, bound, full[:nstar])
		for _, dl := range lens {
			for placement := 0; placement < 2; placement++ {
				if placement == 1 && (dl > cs.arena.Cap() || (len(lens) > 60 && dl%7 != 0)) {
					continue
				}
				const pad = 96
				var back, dst []byte
				seed := byte(dl*31 + placement)
				if placement == 0 {
					back = make([]byte, pad+dl+pad)
					mon.CanaryFill(back, seed)
					dst = back[pad : pad+dl] // cap extends over the trailing canary
				} else {
					dst = cs.arena.End(dl, nil)
				}
				var n int
				var err error
				var fault mon.Fault
				fault = mon.CallGuarded(func() { n, err = e.call(src, dst) }, cs.arena)
				c.Count("compress_calls", 1)
				det := func() map[string]interface{} {
					return map[string]interface{}{"entry": e.name, "depth": e.depth, "class": sc.class, "srclen": len(src), "dstlen": dl, "bound": bound, "n": n, "err": fmt.Sprint(err), "placement": placement, "src": hexs(src)}
				}
				if fault.Panicked {
					kind := "panic"
					if fault.IsFault {
						kind = "guard-fault/" + fault.Where
					}
					c.Violation(kind+"/"+e.name, fmt.Sprintf("%s(%s) src %d dst %d: %s", e.name, depthName(e.depth), len(src), dl, fault.Msg), det())
					continue
				}
				if n > dl || n < 0 {
					c.Violation("count-exceeds-len/"+e.name, fmt.Sprintf("%s(%s) src %d: returned n=%d for len(dst)=%d (err=%v)", e.name, depthName(e.depth), len(src), n, dl, err), det())
				}
				if placement == 0 {
					if k := mon.CanaryCheck(back[:pad], seed); k >= 0 {
						c.Violation("write-before-dst/"+e.name, fmt.Sprintf("%s: byte %d before dst modified", e.name, k), det())
					}
					if first := mon.CanaryCheckRange(back, seed, pad+dl, len(back)); first >= 0 {
						c.Violation("write-beyond-len/"+e.name, fmt.Sprintf("%s(%s) src %d: memory beyond len(dst)=%d modified (first at +%d), n=%d err=%v", e.name, depthName(e.depth), len(src), dl, first, n, err), det())
					}
				}
				if dl >= bound && (n <= 0 || err != nil) {
					c.Violation("zero-or-error-at-bound/"+e.name, fmt.Sprintf("%s(%s) src %d: len(dst)=%d >= bound %d returned n=%d err=%v", e.name, depthName(e.depth), len(src), dl, bound, n, err), det())
				}
				if err != nil && n != 0 {
					c.Violation("error-with-count/"+e.name, fmt.Sprintf("%s: n=%d together with err=%v", e.name, n, err), det())
				}
				if n > 0 && n <= dl && err == nil {
					ro, v, st := ref.DecodeBlock(dst[:n], nil, len(src))
					if !v.Accept() || !bytes.Equal(ro, src) {
						c.Violation("positive-count-incomplete-block/"+e.name, fmt.Sprintf("%s(%s) src %d dst %d: n=%d but dst[:n] is not a complete block for the source (reference: %s, %d bytes)", e.name, depthName(e.depth), len(src), dl, n, v, len(ro)), det())
					}
					c.Cell(fmt.Sprintf("%s/%s/%s/ok/dst%s/matches=%v", sc.class, sc.size, e.name, relLen(dl, nstar, bound), st.Matches > 0))
				} else {
					what := "zero"
					if err != nil {
						what = "err"
					}
					c.Cell(fmt.Sprintf("%s/%s/%s/%s/dst%s", sc.class, sc.size, e.name, what, relLen(dl, nstar, bound)))
				}
			}
		}
		if i%53 == 0 {
			c.Sample(map[string]interface{}{"class": sc.class, "srclen": len(src), "entry": e.name, "depth": e.depth, "dst_lengths_tried": len(lens), "achievable": nstar, "bound": bound})
		}
	}
}

func relLen(dl, nstar, bound int) string {
	switch {
	case dl >= bound:
		return ">=bound"
	case dl >= nstar:
		return "[n*,bound)"
	case dl >= nstar-16:
		return "[n*-16,n*)"
	case dl == 0:
		return "=0"
	default:
		return "<n*-16"
	}
}

// ---- C14 (block half): determinism under real histories -------------------------

type compOut struct {
	n   int
	err bool
	b   []byte
}

func (a compOut) equal(b compOut) bool { return a.n == b.n && a.err == b.err && bytes.Equal(a.b, b.b) }

func callOut(c *Ctx, what string, f func(s, d []byte) (int, error), src []byte, dl int) (compOut, bool) {
	dst := make([]byte, dl)
	var n int
	var err error
	if c.Guard(what, func() { n, err = f(src, dst) }) {
		return compOut{}, false
	}
	o := compOut{n: n, err: err != nil}
	if n > 0 && n <= dl {
		o.b = dst[:n]
	}
	return o, true
}

func c14BlockCase(c *Ctx, i int64) {
	p := planFor(c, "C14")
	sc := p.source(c, i)
	g := c.Rng(i, 79)
	src := sc.data
	if len(src) > 1<<20 {
		src = src[:1<<20]
	}
	depth := -1
	if i%2 == 1 {
		depth = hcDepths[int(i/2)%len(hcDepths)]
		src = src[:capForDepth(sc.class, len(src), depth, c.Tier)]
		if effDepth(depth) > 4096 && len(src) > 200000 {
			src = src[:200000]
		}
	}
	bound := lz4.CompressBlockBound(len(src))
	mk := func() func(s, d []byte) (int, error) { // a brand new object
		if depth < 0 {
			o := new(lz4.Compressor)
			return o.CompressBlock
		}
		o := &lz4.CompressorHC{Level: lz4.CompressionLevel(depth)}
		return o.CompressBlock
	}
	pkg := func(s, d []byte) (int, error) {
		if depth < 0 {
			return lz4.CompressBlock(s, d, nil)
		}
		return lz4.CompressBlockHC(s, d, lz4.CompressionLevel(depth), nil, nil)
	}
	refFull, ok := callOut(c, "fresh", mk(), src, bound)
	if !ok {
		return
	}
	nstar := refFull.n
	dls := []int{bound, len(src), nstar, nstar - 1, nstar / 2, 9}
	refs := map[int]compOut{}
	for _, dl := range dls {
		if dl < 0 {
			continue
		}
		if _, seen := refs[dl]; seen {
			continue
		}
		o, ok := callOut(c, "fresh", mk(), src, dl)
		if !ok {
			return
		}
		refs[dl] = o
	}
	check := func(hist string, f func(s, d []byte) (int, error)) {
		for dl, want := range refs {
			got, ok := callOut(c, hist, f, src, dl)
			if !ok {
				return
			}
			c.Count("determinism_comparisons", 1)
			if !got.equal(want) {
				c.Violation("block-output-depends-on-history/"+depthKind(depth)+"/"+hist,
					fmt.Sprintf("%s src %d bytes (%s) dst %d: fresh object gives n=%d err=%v, after history %q n=%d err=%v, bytes equal=%v",
						depthName(depth), len(src), sc.class, dl, want.n, want.err, hist, got.n, got.err, bytes.Equal(got.b, want.b)),
					map[string]interface{}{"depth": depth, "class": sc.class, "srclen": len(src), "dstlen": dl, "history": hist, "src": hexs(src)})
				return
			}
		}
	}
	sink := make([]byte, lz4.CompressBlockBound(len(src)+70000)+16)
	// H1: unrelated inputs first
	{
		f := mk()
		for k := 0; k < 3; k++ {
			o, _ := gen.DrawSource(g, c.Repo, 70000)
			c.Guard("history", func() { f(o, sink[:lz4.CompressBlockBound(len(o))]) })
		}
		check("unrelated", f)
	}
	// H2: related inputs (shifted, permuted, truncated)
	{
		f := mk()
		sh := append(g.Bytes(1+g.N(3)), src...)
		c.Guard("history", func() { f(sh, sink[:lz4.CompressBlockBound(len(sh))]) })
		if len(src) > 8 {
			h := len(src) / 2
			sw := append(append([]byte{}, src[h:]...), src[:h]...)
			c.Guard("history", func() { f(sw, sink[:lz4.CompressBlockBound(len(sw))]) })
			c.Guard("history", func() { f(src[:h], sink[:lz4.CompressBlockBound(h)]) })
		}
		check("related", f)
	}
	// H3: calls that fail on a too-small destination first
	{
		f := mk()
		for _, dl := range []int{nstar / 2, nstar / 3, 8, nstar - 1} {
			if dl < 0 {
				continue
			}
			c.Guard("history", func() { f(src, make([]byte, dl)) })
			rel := append(g.Bytes(2), src...)
			c.Guard("history", func() { f(rel, make([]byte, dl)) })
		}
		check("failed-calls", f)
	}
	// H4: a larger input (positions beyond 64 KiB) first
	if len(src) < 300000 {
		f := mk()
		big, _ := gen.DrawSource(g, c.Repo, 200000)
		big = append(big, src...)
		big = append(big, g.Bytes(70000)...)
		if depth >= 0 && effDepth(depth) > 256 {
			big = big[:capForDepth("lowentropy", len(big), depth, c.Tier)]
		}
		c.Guard("history", func() { f(big, sink[:0:0]) })
		bb := make([]byte, lz4.CompressBlockBound(len(big)))
		c.Guard("history", func() { f(big, bb) })
		check("after-large", f)
	}
	// same length, spare capacity behind it: the output is a function of len(dst), not of cap(dst)
	{
		f := mk()
		for dl, want := range refs {
			back := make([]byte, dl+4096)
			var n int
			var err error
			if c.Guard("spare-capacity", func() { n, err = f(src, back[:dl]) }) {
				break
			}
			got := compOut{n: n, err: err != nil}
			if n > 0 && n <= dl {
				got.b = back[:n]
			}
			c.Count("determinism_comparisons", 1)
			if !got.equal(want) {
				c.Violation("block-output-depends-on-destination-capacity/"+depthKind(depth),
					fmt.Sprintf("%s src %d bytes (%s) len(dst) %d: cap == len gives n=%d err=%v, 4096 bytes of spare capacity give n=%d err=%v", depthName(depth), len(src), sc.class, dl, want.n, want.err, got.n, got.err),
					map[string]interface{}{"depth": depth, "class": sc.class, "srclen": len(src), "dstlen": dl, "src": hexs(src)})
				break
			}
		}
	}
	// the long-lived object of this worker and the pooled package function
	if depth < 0 {
		check("long-lived", cs.fastReused.CompressBlock)
	} else {
		check("long-lived", func(s, d []byte) (int, error) {
			cs.hcReused.Level = lz4.CompressionLevel(depth)
			return cs.hcReused.CompressBlock(s, d)
		})
	}
	check("package-pool", pkg)
	// goroutines churning the pools and compressing the same source simultaneously
	if i%4 == 0 {
		const G = 8
		outs := make([]compOut, G)
		oks := make([]bool, G)
		done := make(chan int, G)
		others := make([][]byte, G)
		for k := range others {
			others[k], _ = gen.DrawSource(g, c.Repo, 30000)
		}
		for k := 0; k < G; k++ {
			go func(k int) {
				defer func() { recover(); done <- k }()
				tmp := make([]byte, lz4.CompressBlockBound(len(others[k])))
				pkg(others[k], tmp)
				dst := make([]byte, bound)
				n, err := pkg(src, dst)
				outs[k] = compOut{n: n, err: err != nil}
				if n > 0 && n <= bound {
					outs[k].b = dst[:n]
				}
				oks[k] = true
			}(k)
		}
		for k := 0; k < G; k++ {
			<-done
		}
		for k := 0; k < G; k++ {
			c.Count("determinism_comparisons", 1)
			if !oks[k] {
				c.Violation("panic/concurrent-package-call", "package-level compressor panicked in a goroutine", nil)
			} else if !outs[k].equal(refs[bound]) {
				c.Violation("block-output-depends-on-history/"+depthKind(depth)+"/concurrent-pool",
					fmt.Sprintf("%s src %d: goroutine %d using the package function got n=%d, fresh object n=%d", depthName(depth), len(src), k, outs[k].n, refs[bound].n),
					map[string]interface{}{"depth": depth, "class": sc.class, "srclen": len(src), "src": hexs(src)})
				break
			}
		}
	}
	c.Cell(fmt.Sprintf("block/%s/%s/%s/compressible=%v", sc.class, sc.size, depthName(depth), nstar < len(src)))
	if i%101 == 0 {
		c.Sample(map[string]interface{}{"kind": "block-determinism", "class": sc.class, "srclen": len(src), "depth": depth, "histories": "unrelated, related, failed-calls, after-large, long-lived, package-pool", "dst_sizes": len(refs)})
	}
}

func depthKind(d int) string {
	if d < 0 {
		return "fast"
	}
	return "hc"
}
