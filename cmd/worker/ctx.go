package main

import (
	"bufio"
	"encoding/binary"
	"encoding/json"
	"fmt"
	"os"
	"runtime/debug"
	"sort"
	"strings"
	"syscall"

	"verif/internal/gen"
	"verif/internal/prng"
)

// Ctx is the per-worker state: which cases to run and what was observed.
type Ctx struct {
	Prop        string
	Tier        string
	Seed        uint64
	Shard       int
	NShards     int
	Start       int64
	Only        int64
	Variant     string
	Verbose     bool
	needRestart bool
	Repo        string

	out      *bufio.Writer
	outFile  *os.File
	cur      []byte
	evals    int64
	cells    map[string]int64
	counters map[string]int64
	samples  []interface{}
	violN    map[string]int64
	curCase  int64
}

type violRec struct {
	T       string      `json:"t"`
	Prop    string      `json:"prop"`
	Key     string      `json:"key"`
	Msg     string      `json:"msg"`
	Case    int64       `json:"case"`
	Variant string      `json:"variant"`
	Tier    string      `json:"tier"`
	Seed    uint64      `json:"seed"`
	Detail  interface{} `json:"detail,omitempty"`
}

type sumRec struct {
	T        string           `json:"t"`
	Prop     string           `json:"prop"`
	Variant  string           `json:"variant"`
	Shard    int              `json:"shard"`
	Evals    int64            `json:"evals"`
	Cells    map[string]int64 `json:"cells"`
	Counters map[string]int64 `json:"counters"`
	Samples  []interface{}    `json:"samples"`
	ViolN    map[string]int64 `json:"viol_counts"`
	Last     int64            `json:"last"`
}

func (c *Ctx) open(outPath string) {
	c.cells = map[string]int64{}
	c.counters = map[string]int64{}
	c.violN = map[string]int64{}
	if outPath == "" {
		c.out = bufio.NewWriter(os.Stdout)
		return
	}
	f, err := os.OpenFile(outPath, os.O_CREATE|os.O_WRONLY|os.O_APPEND, 0o644)
	if err != nil {
		fatal("open out: %v", err)
	}
	c.outFile = f
	c.out = bufio.NewWriter(f)
	cf, err := os.OpenFile(outPath+".cur", os.O_CREATE|os.O_RDWR, 0o644)
	if err != nil {
		fatal("open cur: %v", err)
	}
	_ = cf.Truncate(curSize)
	m, err := syscall.Mmap(int(cf.Fd()), 0, curSize, syscall.PROT_READ|syscall.PROT_WRITE, syscall.MAP_SHARED)
	if err != nil {
		fatal("mmap cur: %v", err)
	}
	cf.Close()
	c.cur = m
	binary.LittleEndian.PutUint64(c.cur[0:], ^uint64(0))
}

func fatal(f string, a ...interface{}) {
	fmt.Fprintf(os.Stderr, "worker: "+f+"\n", a...)
	os.Exit(3)
}

// Mine tells whether case i belongs to this worker.
func (c *Ctx) Mine(i int64) bool {
	if c.Only >= 0 {
		return i == c.Only
	}
	if i < c.Start {
		return false
	}
	return i%int64(c.NShards) == int64(c.Shard)
}

const curSize = 256

// Begin marks case i as in flight (so that a process death can be attributed).
func (c *Ctx) Begin(i int64) {
	c.curCase = i
	if c.cur != nil {
		binary.LittleEndian.PutUint64(c.cur[0:], uint64(i))
		c.cur[8] = 0
	}
	c.evals++
}

// Tag records a short, checker-computed description of what the case is about
// to do; if the process dies the parent uses it in the violation signature.
func (c *Ctx) Tag(tag string) {
	if c.cur == nil {
		return
	}
	if len(tag) > curSize-10 {
		tag = tag[:curSize-10]
	}
	copy(c.cur[8:], tag)
	c.cur[8+len(tag)] = 0
}

// Rng derives the case's private generator.
func (c *Ctx) Rng(i int64, labels ...uint64) *prng.Rng {
	l := append([]uint64{prng.Hash(c.Prop), uint64(i)}, labels...)
	return prng.Derive(c.Seed, l...)
}

// Guard runs fn and converts an escaping panic into a violation of the
// property (a panic escaping a library call is a refuting event by itself);
// panics raised by the harness on purpose use harnessPanic and are re-raised.
func (c *Ctx) Guard(what string, fn func()) (panicked bool) {
	defer func() {
		if r := recover(); r != nil {
			if hp, ok := r.(harnessPanic); ok {
				panic(hp)
			}
			if be, ok := r.(gen.BudgetExceeded); ok {
				panicked = true
				st := string(debug.Stack())
				c.Violation("runaway/"+what+"/"+panicSite(st), "runaway loop: "+be.What, map[string]interface{}{"stack": trimStack(st)})
				return
			}
			panicked = true
			st := string(debug.Stack())
			c.Violation("panic/"+what+"/"+panicSite(st), fmt.Sprintf("panic: %v", r), map[string]interface{}{"stack": trimStack(st)})
		}
	}()
	fn()
	return false
}

type harnessPanic struct{ msg string }

func trimStack(s string) string {
	lines := strings.Split(s, "\n")
	if len(lines) > 40 {
		lines = lines[:40]
	}
	return strings.Join(lines, "\n")
}

// panicSite extracts the innermost library function from a stack trace.
func panicSite(st string) string {
	for _, l := range strings.Split(st, "\n") {
		if strings.Contains(l, "pierrec/lz4") && !strings.HasPrefix(l, "\t") {
			l = strings.TrimSpace(l)
			if k := strings.LastIndex(l, "("); k > 0 {
				l = l[:k]
			}
			if k := strings.LastIndex(l, "/"); k >= 0 {
				l = l[k+1:]
			}
			return l
		}
	}
	return "unknown"
}

// Over tells (and counts) that enough witnesses of this signature have been
// recorded already, so that hot loops can skip formatting further ones.
func (c *Ctx) Over(key string) bool {
	if c.violN[key] >= 5 {
		c.violN[key]++
		return true
	}
	return false
}

func (c *Ctx) Violation(key, msg string, detail interface{}) {
	c.violN[key]++
	if c.violN[key] > 5 {
		return
	}
	rec := violRec{T: "v", Prop: c.Prop, Key: key, Msg: msg, Case: c.curCase, Variant: c.Variant, Tier: c.Tier, Seed: c.Seed, Detail: detail}
	b, err := json.Marshal(rec)
	if err != nil {
		b, _ = json.Marshal(violRec{T: "v", Prop: c.Prop, Key: key, Msg: msg + " (detail not serialisable)", Case: c.curCase, Variant: c.Variant, Tier: c.Tier, Seed: c.Seed})
	}
	c.out.Write(b)
	c.out.WriteByte('\n')
	c.out.Flush()
	if c.Verbose {
		fmt.Fprintf(os.Stderr, "VIOLATION %s: %s\n", key, msg)
	}
}

// ViolationAs reports against another property id (shared passes).
func (c *Ctx) ViolationAs(prop, key, msg string, detail interface{}) {
	old := c.Prop
	c.Prop = prop
	c.Violation(key, msg, detail)
	c.Prop = old
}

func (c *Ctx) Cell(name string)           { c.cells[name]++ }
func (c *Ctx) Count(name string, d int64) { c.counters[name] += d }
func (c *Ctx) Max(name string, v int64) {
	if v > c.counters[name] {
		c.counters[name] = v
	}
}

func (c *Ctx) Sample(v interface{}) {
	if len(c.samples) < 4 {
		c.samples = append(c.samples, v)
	}
}

// Checkpoint writes a cumulative summary; the parent uses the last one of a
// file, so a later death loses at most the cases since the last checkpoint.
func (c *Ctx) Checkpoint() {
	if c.outFile == nil {
		return
	}
	rec := sumRec{T: "ckpt", Prop: c.Prop, Variant: c.Variant, Shard: c.Shard, Evals: c.evals, Cells: c.cells, Counters: c.counters, Samples: c.samples, ViolN: c.violN, Last: c.curCase}
	b, _ := json.Marshal(rec)
	c.out.Write(b)
	c.out.WriteByte('\n')
	c.out.Flush()
}

func (c *Ctx) Finish() {
	rec := sumRec{T: "sum", Prop: c.Prop, Variant: c.Variant, Shard: c.Shard, Evals: c.evals, Cells: c.cells, Counters: c.counters, Samples: c.samples, ViolN: c.violN, Last: c.curCase}
	b, _ := json.Marshal(rec)
	c.out.Write(b)
	c.out.WriteByte('\n')
	c.out.Flush()
	if c.outFile != nil {
		c.outFile.Close()
	}
	if c.Verbose {
		keys := make([]string, 0, len(c.cells))
		for k := range c.cells {
			keys = append(keys, k)
		}
		sort.Strings(keys)
		fmt.Fprintf(os.Stderr, "evals=%d cells=%d counters=%v\n", c.evals, len(keys), c.counters)
	}
}

func hexs(b []byte) string {
	const max = 600
	if len(b) > max {
		return fmt.Sprintf("%x...(%d bytes)", b[:max], len(b))
	}
	return fmt.Sprintf("%x", b)
}
