package main

import (
	"bytes"
	"fmt"

	"verif/internal/gen"
	"verif/internal/ref"
)

// C05 – Reader acceptance is sound: whenever reading a corrupted frame ends
// cleanly, the independent parser accepts exactly the consumed bytes and yields
// the same output.

var c05Seeds []seedFrame

const c05Families = 6

func init() {
	register("C05", &PropDef{
		Setup: func(c *Ctx) {
			gen.LoadTexts(c.Repo)
			all := buildSeeds(c, false)
			for _, s := range all {
				if !s.pf.Legacy {
					c05Seeds = append(c05Seeds, s)
				}
			}
		},
		Total: func(c *Ctx) int64 { return int64(len(c05Seeds))*c05Families + numHugeCases(c) },
		Run: func(c *Ctx, i int64) {
			if t := int64(len(c05Seeds)) * c05Families; i >= t {
				c05HugeCase(c, i-t)
				return
			}
			c05Case(c, i)
		},
	})
}

func c05Mutants(c *Ctx, i int64) (*seedFrame, []gen.Mutant) {
	s := &c05Seeds[i/c05Families]
	fam := int(i % c05Families)
	g := c.Rng(i)
	var ms []gen.Mutant
	switch fam {
	case 0:
		ms = gen.BitFlipsStructural(s.frame, s.pf)
	case 1:
		o := &c05Seeds[(int(i/c05Families)+1+g.N(len(c05Seeds)-1))%len(c05Seeds)]
		ms = gen.Structural(g, s.frame, s.pf, o.frame, o.pf)
		ms = append(ms, gen.FarOffsets(s.frame, s.pf)...)
	default:
		n := 400
		if c.Tier == "thorough" {
			n = 6000
		}
		ms = gen.RandomMutants(g, s.frame, s.pf, n)
	}
	return s, ms
}

func c05Case(c *Ctx, i int64) {
	s, ms := c05Mutants(c, i)
	g := c.Rng(i, 5)
	type rdm struct{ conc, mode int }
	readers := []rdm{{1, rdSmall}, {1, rdBlock}, {1, rdWriteTo}, {2, rdWriteTo}, {4, rdSmall}}
	if c.Tier == "thorough" {
		readers = append(readers, rdm{2, rdBlock}, rdm{4, rdWriteTo}, rdm{4, rdMixed}, rdm{1, rdMixed})
	}
	for mi, m := range ms {
		if bytes.Equal(m.Bytes, s.frame) {
			continue
		}
		for _, rd := range readers {
			rr := readStream(c, m.Bytes, rd.conc, rd.mode, s.cfg.blockMax(), g, gen.ReadPlain)
			c.Count("mutant_reads", 1)
			if rr.panicky {
				continue
			}
			stage := "rejected"
			if rr.err == nil {
				stage = "accepted"
				c.Count("mutants_accepted_by_reader", 1)
				consumed := rr.consumed
				det := func(note string) map[string]interface{} {
					return map[string]interface{}{"seed": s.name, "mutator": m.Kind, "field": m.Field, "reader_conc": rd.conc, "read_mode": rdNames[rd.mode], "consumed": consumed, "delivered": len(rr.out), "note": note, "mutant": hexs(m.Bytes), "mutant_index": mi}
				}
				first := uint32(0)
				if len(m.Bytes) >= 4 {
					first = uint32(m.Bytes[0]) | uint32(m.Bytes[1])<<8 | uint32(m.Bytes[2])<<16 | uint32(m.Bytes[3])<<24
				}
				if first == ref.MagicLegacy {
					// the mutation turned the frame into a legacy stream, which has no integrity fields
					c.Count("mutants_became_legacy_not_judged", 1)
					continue
				}
				pf, perr := ref.ParseFrame(m.Bytes[:consumed], ref.ParseOpts{EnforceBlockMax: true}) // a block that decodes to more than the declared maximum is rejected by the reference implementation (lz4 1.9.4: ERROR_decompressionFailed)
				mc := "seq"
				if rd.conc > 1 {
					mc = "conc"
				}
				if perr != nil {
					fe, _ := perr.(*ref.FrameError)
					kind := "other"
					if fe != nil {
						kind = fe.Kind.String()
					}
					c.Violation("corrupt-frame-accepted/"+kind+"/"+mc+"/"+rdNames[rd.mode], fmt.Sprintf("Reader(conc %d, %s) reads a corrupted frame (%s of %s, seed %q) to a clean end of stream after consuming %d bytes, but the independent parser rejects those bytes: %v", rd.conc, rdNames[rd.mode], m.Kind, m.Field, s.name, consumed, perr), det(perr.Error()))
					continue
				}
				if pf.Consumed != consumed {
					c.Violation("consumed-bytes-differ/"+mc, fmt.Sprintf("Reader consumed %d bytes, the frame ends at %d (mutator %s)", consumed, pf.Consumed, m.Kind), det(""))
					continue
				}
				if !bytes.Equal(pf.Content, rr.out) {
					c.Violation("accepted-output-differs/"+mc+"/"+rdNames[rd.mode], fmt.Sprintf("Reader(conc %d, %s) accepted a corrupted frame (%s of %s) and returned %d bytes that differ from the independent decoding (%d bytes)", rd.conc, rdNames[rd.mode], m.Kind, m.Field, len(rr.out), len(pf.Content)), det(""))
					continue
				}
				c.Count("accepted_and_reference_agrees", 1)
				if bytes.Equal(rr.out, s.input) {
					stage = "accepted-same-content"
				} else {
					stage = "accepted-other-content"
				}
			} else {
				stage = "rejected/" + errClass(rr.err)
			}
			c.Cell(fmt.Sprintf("%s/%s/%s/%s/conc%d/%s", s.name, m.Kind, m.Field, stage, rd.conc, rdNames[rd.mode]))
		}
	}
	if i%7 == 0 && len(ms) > 0 {
		c.Sample(map[string]interface{}{"seed": s.name, "frame_len": len(s.frame), "mutants": len(ms), "first_mutator": ms[0].Kind, "first_field": ms[0].Field, "readers_per_mutant": len(readers)})
	}
}
