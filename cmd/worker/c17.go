package main

import (
	"bytes"
	"fmt"
	"strings"

	lz4 "github.com/pierrec/lz4/v4"

	"verif/internal/gen"
	"verif/internal/prng"
	"verif/internal/ref"
)

// C17 – lifecycle: model-based monitoring of call histories on Writer and
// Reader.  The model asserts only the clauses of the property (see DESIGN.md).

// ---- Writer alphabet ----------------------------------------------------------

const (
	wApplyBC = iota
	wApplyBS256
	wApplySize
	wApplyNoCC
	wApplyLegacyOn
	wApplyLegacyOff
	wWriteEmpty
	wWriteSmall
	wWriteBlock
	wWriteBig
	wReadFrom
	wFlush
	wClose
	wResetSame
	wResetNew
	wResetFailing // Reset onto a sink that fails from its second call on (the header gets through)
	numWOps
)

var wOpNames = []string{"Apply(BlockChecksum)", "Apply(BlockSize256K)", "Apply(SizeWithZeroHeaderChecksum)", "Apply(NoChecksum)", "Apply(LegacyOn)", "Apply(LegacyOff)",
	"Write(0)", "Write(100)", "Write(65536)", "Write(70000)", "ReadFrom(1000)", "Flush", "Close", "Reset(same)", "Reset(new)", "Reset(failing sink)"}

// model of the options as the property describes them
type wModel struct {
	bs     int
	bc     bool
	cc     bool
	size   uint64
	legacy bool
	conc   int
}

func (m wModel) cfg() ref.WriterConfig {
	return ref.WriterConfig{Legacy: m.legacy, BlockMax: m.bs, BlockChecksum: m.bc, ContentChecksum: m.cc, ContentSize: m.size}
}

func (m wModel) options() []lz4.Option {
	return []lz4.Option{lz4.BlockSizeOption(lz4.BlockSize(m.bs)), lz4.BlockChecksumOption(m.bc), lz4.ChecksumOption(m.cc), lz4.SizeOption(m.size), lz4.LegacyOption(m.legacy), lz4.ConcurrencyOption(m.conc)}
}

type wEpoch struct {
	sink      *gen.Sink
	start     int // offset in sink.Buf where this epoch's frame starts
	started   bool
	snapshot  wModel // options at the first write of the epoch
	accepted  []byte
	failed    bool // some call returned an error: no claims about the frame any more
	closed    bool
	ops       []int
	results   []string
	afterOff  bool // legacy was switched off after having been on (K7 signature)
	sizeSetIn int  // epoch in which SizeOption was applied
}

type seqCounts struct{ total int64 }

// sequence enumeration: all sequences of length 1..L over an alphabet of size A
func seqCount(A, L int) int64 {
	var t, p int64 = 0, 1
	for l := 1; l <= L; l++ {
		p *= int64(A)
		t += p
	}
	return t
}

func seqDecode(idx int64, A int) []int {
	l := 1
	p := int64(A)
	for idx >= p {
		idx -= p
		p *= int64(A)
		l++
	}
	s := make([]int, l)
	for k := l - 1; k >= 0; k-- {
		s[k] = int(idx % int64(A))
		idx /= int64(A)
	}
	return s
}

// directed histories: longer than the exhaustive bound, written down because the
// anchored mechanisms (legacy switch, option persistence) need 5+ calls to show.
var c17Directed = [][]int{
	{wApplyLegacyOn, wClose, wResetNew, wApplyLegacyOff, wWriteSmall, wClose},
	{wApplyLegacyOn, wWriteBlock, wClose, wResetSame, wApplyLegacyOff, wWriteBig, wFlush, wClose},
	{wApplySize, wApplyBC, wWriteSmall, wClose, wResetNew, wWriteBig, wClose, wResetSame, wClose},
	{wApplyBS256, wWriteBig, wWriteBig, wWriteBig, wWriteBig, wFlush, wWriteSmall, wClose, wClose, wWriteSmall, wResetSame, wWriteSmall, wClose},
	{wReadFrom, wClose, wResetNew, wReadFrom, wFlush, wClose, wResetSame, wApplyNoCC, wReadFrom, wClose},
	// three and four epochs, options applied between Resets without a write, Flush with nothing pending
	{wWriteSmall, wClose, wResetSame, wWriteBig, wClose, wResetSame, wWriteBlock, wClose, wResetNew, wWriteSmall, wClose},
	{wApplyBC, wWriteSmall, wClose, wResetSame, wApplySize, wResetSame, wApplyBS256, wResetNew, wWriteBig, wFlush, wFlush, wClose},
	{wFlush, wClose, wResetSame, wFlush, wFlush, wWriteSmall, wClose, wResetSame, wClose, wResetSame, wReadFrom, wClose},
	{wWriteBlock, wFlush, wResetSame, wReadFrom, wClose, wResetNew, wReadFrom, wClose, wResetSame, wWriteBlock, wWriteSmall, wClose},
	{wApplyNoCC, wClose, wResetSame, wApplyBC, wClose, wResetSame, wWriteBig, wClose, wClose, wResetSame, wWriteSmall, wFlush, wClose},
}

type c17Plan struct {
	wLen, rLen   int
	wEnum, rEnum int64
	wRand, rRand int64
}

func c17PlanFor(c *Ctx) c17Plan {
	p := c17Plan{wLen: 4, rLen: 4, wRand: 3000, rRand: 3000}
	if c.Tier == "thorough" {
		p.wLen, p.rLen, p.wRand, p.rRand = 5, 5, 40000, 40000
	}
	p.wEnum = seqCount(numWOps, p.wLen)
	p.rEnum = seqCount(numROps, p.rLen)
	return p
}

// total: writer sequences x {sequential, concurrent}, reader sequences x {sequential, concurrent} x {plain, trailing bytes}
func (p c17Plan) total() int64 {
	return 2*(p.wEnum+p.wRand) + 4*(p.rEnum+p.rRand)
}

func init() {
	register("C17", &PropDef{
		Setup: func(c *Ctx) {
			gen.LoadTexts(c.Repo)
			c17Frames = buildReaderFrames(c)
		},
		Total: func(c *Ctx) int64 { return c17PlanFor(c).total() + numLevelCasesWriter() },
		Run: func(c *Ctx, i int64) {
			if t := c17PlanFor(c).total(); i >= t {
				levelCaseWriter(c, i-t) // "options take effect ... and persist across Reset": the compression level
				return
			}
			c17Case(c, i)
		},
	})
}

func c17Case(c *Ctx, i int64) {
	p := c17PlanFor(c)
	nw := p.wEnum + p.wRand
	if i < 2*nw {
		conc := i >= nw
		j := i % nw
		var seq []int
		if j < p.wEnum {
			seq = seqDecode(j, numWOps)
		} else if j-p.wEnum < int64(len(c17Directed)) {
			seq = c17Directed[j-p.wEnum]
		} else {
			g := c.Rng(i)
			l := 5 + g.N(8)
			for k := 0; k < l; k++ {
				seq = append(seq, g.N(numWOps))
			}
		}
		runWriterSeq(c, i, seq, conc)
		return
	}
	i2 := i - 2*nw
	nr := p.rEnum + p.rRand
	variant := int(i2 / nr) // 0 seq, 1 conc, 2 seq+trailing, 3 conc+trailing
	j := i2 % nr
	var seq []int
	if j < p.rEnum {
		seq = seqDecode(j, numROps)
	} else {
		g := c.Rng(i)
		l := 5 + g.N(8)
		for k := 0; k < l; k++ {
			seq = append(seq, g.N(numROps))
		}
	}
	runReaderSeq(c, i, seq, variant%2 == 1, variant >= 2)
}

func seqString(names []string, seq []int) string {
	var s []string
	for _, o := range seq {
		s = append(s, names[o])
	}
	return strings.Join(s, " ; ")
}

func mcName(conc bool) string {
	if conc {
		return "concurrent"
	}
	return "sequential"
}

var (
	c17Small = bytes.Repeat([]byte("lifecycle "), 10)
	c17Block []byte
	c17Big   []byte
	c17RF    []byte
)

func c17Data() {
	if c17Block != nil {
		return
	}
	g := prng.New(0xC17)
	c17Block = mixData(g, 65536)
	c17Big = mixData(g, 70000)
	c17RF = mixData(g, 1000)
}

// runWriterSeq executes one call sequence on a Writer under the model.
func runWriterSeq(c *Ctx, i int64, seq []int, conc bool) {
	c17Data()
	mc := mcName(conc)
	model := wModel{bs: 65536, cc: true, conc: 1}
	if conc {
		model.conc = 4
	}
	newSink := func() *gen.Sink { return &gen.Sink{Budget: 400, MaxBytes: 8 << 20} }
	ep := &wEpoch{sink: newSink()}
	var w *lz4.Writer
	legacyEver := false
	legacyOffAfterOn := false
	det := func() map[string]interface{} {
		return map[string]interface{}{"sequence": seqString(wOpNames, seq), "mode": mc, "results": ep.results}
	}
	if c.Guard("NewWriter", func() {
		w = lz4.NewWriter(ep.sink)
		if err := w.Apply(lz4.BlockSizeOption(lz4.Block64Kb), lz4.ConcurrencyOption(model.conc)); err != nil {
			c.Violation("setup-apply-failed", err.Error(), nil)
		}
	}) {
		return
	}
	epochNo := 1
	sizeEpoch := 0
	// closeEpoch validates the finished frame of the current epoch (clause b, c, d)
	validate := func() {
		frame := ep.sink.Buf[ep.start:]
		pf, err := ref.ParseFrame(frame, ref.ParseOpts{EnforceBlockMax: true})
		suffix := ""
		if epochNo > 1 {
			suffix = "/after-reset"
		}
		if err != nil {
			fe, _ := err.(*ref.FrameError)
			kind := "other"
			if fe != nil {
				kind = fe.Kind.String()
			}
			key := "closed-frame-invalid/" + kind + suffix
			if kind == "block-size-code" && ep.afterOff && len(frame) > 5 && frame[5]>>4&7 == 3 {
				key = "block-size-code-3-after-legacy-switched-off"
			}
			c.Violation(key+"/"+mc, fmt.Sprintf("every call returned nil, but the bytes emitted since the last Reset are not a valid frame: %v [%s]", err, seqString(wOpNames, seq)), det())
			return
		}
		cfg := ep.snapshot.cfg()
		for _, b := range ref.CheckConformance(pf, cfg, ep.accepted, len(frame)) {
			key := "closed-frame-nonconforming/" + b[0] + suffix
			if b[0] == "content-size-value" && pf.ContentSize == 0 && pf.HasContentSize {
				// SizeOption applied earlier; the flag survived a Reset / a later Apply but the value was zeroed
				key = "closed-frame-nonconforming/content-size-value-zeroed"
			}
			c.Violation(key+"/"+mc, fmt.Sprintf("frame of epoch %d does not match the model (options %+v): %s [%s]", epochNo, ep.snapshot, b[1], seqString(wOpNames, seq)), det())
		}
	}
	stopped := false // concurrent Writer: the ordering goroutine was stopped and not restarted
	start := func() {
		if !ep.started {
			ep.started = true
			ep.snapshot = model
			stopped = false
		}
	}
	hung := false
	// call runs one library call under the in-process deadlock monitor
	call := func(what, tag string, fn func()) bool {
		wr := c.Watch(what, fn)
		if wr.Deadlocked {
			hung = true
			key := "deadlock/" + what + "/" + mc
			if tag != "" {
				key = "deadlock/" + tag
			}
			c.Violation(key, fmt.Sprintf("%s never returns: every goroutine inside the library is blocked [%s]", what, seqString(wOpNames, seq)), map[string]interface{}{"sequence": seqString(wOpNames, seq), "mode": mc, "goroutines": wr.Dump})
			return true
		}
		return wr.Panicked
	}
	for _, op := range seq {
		if hung {
			break
		}
		ep.ops = append(ep.ops, op)
		before := len(ep.sink.Buf)
		afterClose := ep.closed
		tag := ""
		isApply := op <= wApplyLegacyOff
		switch {
		case conc && stopped && !ep.started && (op == wClose || op == wResetSame || op == wResetNew || op == wResetFailing || isApply) && !afterClose:
			// the ordering goroutine of the previous frame has been stopped (by Close or Reset) and no
			// new frame has been started: signalling it again is the F6 history
			tag = "pipeline-signalled-again-after-stop/" + mc
		case afterClose && (op == wWriteSmall || op == wWriteBlock || op == wWriteBig || op == wReadFrom):
			tag = "write-after-close/" + mc
		case afterClose && op == wClose:
			tag = "close-after-close/" + mc
		case afterClose && (op == wResetSame || op == wResetNew || op == wResetFailing):
			tag = "reset-after-close/" + mc
		case afterClose && op == wFlush:
			tag = "flush-after-close/" + mc
		}
		c.Tag(tag)
		var err error
		var n int
		panicked := false
		switch op {
		case wApplyBC, wApplyBS256, wApplySize, wApplyNoCC, wApplyLegacyOn, wApplyLegacyOff:
			var o lz4.Option
			m2 := model
			switch op {
			case wApplyBC:
				o, m2.bc = lz4.BlockChecksumOption(true), true
			case wApplyBS256:
				o, m2.bs = lz4.BlockSizeOption(lz4.Block256Kb), 262144
			case wApplySize:
				// a value for which the header checksum byte of the current flags is 0x00
				sz := hcZeroSize(lz4.BlockSize(model.bs), model.bc, model.cc)
				o, m2.size = lz4.SizeOption(sz), sz
			case wApplyNoCC:
				o, m2.cc = lz4.ChecksumOption(false), false
			case wApplyLegacyOn:
				o, m2.legacy = lz4.LegacyOption(true), true
			case wApplyLegacyOff:
				o, m2.legacy = lz4.LegacyOption(false), false
			}
			panicked = call("Writer.Apply", tag, func() { err = w.Apply(o) })
			if err == nil && !panicked {
				if ep.started && !ep.closed && !ep.failed {
					c.Violation("apply-accepted-while-writing/"+mc, fmt.Sprintf("%s returned nil after the first write of the frame [%s]", wOpNames[op], seqString(wOpNames, seq)), det())
				}
				if op == wApplyLegacyOn {
					legacyEver = true
					legacyOffAfterOn = false
				}
				if op == wApplyLegacyOff && legacyEver {
					// K7 history: the Writer was in legacy mode before and has been switched back
					legacyOffAfterOn = true
				}
				ep.afterOff = legacyOffAfterOn
				if op == wApplySize && sizeEpoch == 0 {
					sizeEpoch = epochNo
				}
				model = m2
			}
		case wWriteEmpty, wWriteSmall, wWriteBlock, wWriteBig:
			data := [][]byte{nil, c17Small, c17Block, c17Big}[op-wWriteEmpty]
			if !afterClose {
				start()
			}
			panicked = call("Writer.Write", tag, func() { n, err = writeRecycled(w, data) })
			if !panicked && !afterClose {
				if err == nil {
					if n != len(data) {
						c.Violation("write-short-count/"+mc, fmt.Sprintf("Write(%d) returned n=%d, nil", len(data), n), det())
					}
					ep.accepted = append(ep.accepted, data...)
				} else {
					ep.failed = true
				}
			}
			if !panicked && afterClose && len(data) > 0 {
				// clause (e): after Close further writes fail without output
				if ep.sink.Overrun {
					c.Violation("write-after-close/runaway-loop/"+mc, fmt.Sprintf("Write after Close does not return: the sink was called %d times until the harness budget stopped it [%s]", ep.sink.Calls, seqString(wOpNames, seq)), det())
					hung = true
				} else if err == nil {
					c.Violation("write-after-close/accepted/"+mc, fmt.Sprintf("Write(%d) after Close returned (%d, nil) [%s]", len(data), n, seqString(wOpNames, seq)), det())
				}
				if len(ep.sink.Buf) != before && !ep.sink.Overrun {
					c.Violation("write-after-close/output/"+mc, fmt.Sprintf("Write after Close added %d bytes to the sink [%s]", len(ep.sink.Buf)-before, seqString(wOpNames, seq)), det())
				}
			}
		case wReadFrom:
			var n64 int64
			if !afterClose {
				start()
			}
			src := &gen.Source{Data: c17RF, Budget: 300}
			panicked = call("Writer.ReadFrom", tag, func() { n64, err = w.ReadFrom(src) })
			n = int(n64)
			if !panicked && !afterClose {
				if err == nil {
					if n != len(c17RF) {
						c.Violation("readfrom-short-count/"+mc, fmt.Sprintf("ReadFrom returned n=%d, nil for a %d-byte source", n, len(c17RF)), det())
					}
					ep.accepted = append(ep.accepted, c17RF...)
				} else {
					ep.failed = true
				}
			}
			if !panicked && afterClose {
				if ep.sink.Overrun {
					c.Violation("write-after-close/runaway-loop/"+mc, fmt.Sprintf("ReadFrom after Close does not return: sink called %d times [%s]", ep.sink.Calls, seqString(wOpNames, seq)), det())
					hung = true
				} else if err == nil {
					c.Violation("write-after-close/accepted/"+mc, fmt.Sprintf("ReadFrom after Close returned (%d, nil) [%s]", n, seqString(wOpNames, seq)), det())
				}
				if len(ep.sink.Buf) != before && !ep.sink.Overrun {
					c.Violation("write-after-close/output/"+mc, fmt.Sprintf("ReadFrom after Close added %d bytes to the sink [%s]", len(ep.sink.Buf)-before, seqString(wOpNames, seq)), det())
				}
			}
		case wFlush:
			if !afterClose {
				start()
			}
			panicked = call("Writer.Flush", tag, func() { err = w.Flush() })
			if !panicked && !afterClose {
				if err != nil {
					ep.failed = true
				} else if !conc && !ep.failed {
					// clause (g): a decodable prefix containing everything written so far
					pf, _, perr := ref.ParsePrefix(ep.sink.Buf[ep.start:], ref.ParseOpts{})
					if fr := ep.sink.Buf[ep.start:]; perr != nil && ep.afterOff && len(fr) > 5 && fr[5]>>4&7 == 3 {
						c.Violation("block-size-code-3-after-legacy-switched-off/"+mc, fmt.Sprintf("after Flush the sink holds a header with block-size code 3 (Writer switched from legacy back to the modern format): %v [%s]", perr, seqString(wOpNames, seq)), det())
					} else if perr != nil {
						c.Violation("flush-prefix-not-decodable/"+mc, fmt.Sprintf("after Flush returned nil the sink does not hold a decodable frame prefix: %v [%s]", perr, seqString(wOpNames, seq)), det())
					} else if !bytes.Equal(pf.Content, ep.accepted) {
						c.Violation("flush-prefix-incomplete/"+mc, fmt.Sprintf("after Flush returned nil the sink decodes to %d bytes, %d were written [%s]", len(pf.Content), len(ep.accepted), seqString(wOpNames, seq)), det())
					}
					c.Count("flush_prefix_checks", 1)
				}
			}
			if !panicked && afterClose && len(ep.sink.Buf) != before {
				c.Violation("flush-after-close/output/"+mc, fmt.Sprintf("Flush after Close added %d bytes [%s]", len(ep.sink.Buf)-before, seqString(wOpNames, seq)), det())
			}
		case wClose:
			if !afterClose {
				start()
			}
			panicked = call("Writer.Close", tag, func() { err = w.Close() })
			if panicked {
				break
			}
			if afterClose {
				// clause (e): a second Close emits nothing
				if len(ep.sink.Buf) != before {
					c.Violation("close-after-close/output/"+mc, fmt.Sprintf("a second Close added %d bytes to the sink [%s]", len(ep.sink.Buf)-before, seqString(wOpNames, seq)), det())
				}
				break
			}
			if err != nil {
				ep.failed = true
				break
			}
			if !ep.failed {
				validate()
				c.Count("closed_frames_validated", 1)
			}
			ep.closed = true
			stopped = true
		case wResetSame, wResetNew, wResetFailing:
			if ep.started {
				stopped = true
			}
			// clause (d): differential replay of the epoch that ends here
			finished := ep
			sink := ep.sink
			switch {
			case op == wResetNew:
				sink = newSink()
			case op == wResetFailing:
				sink = newSink()
				sink.FailFrom = 2
			case sink.FailFrom != 0:
				// "the same sink" after a failing one: it stays broken
				sink.Calls = 0
				sink.FailFrom = 1
			default:
				sink.Calls = 0 // fresh call budget for the next epoch
			}
			panicked = call("Writer.Reset", tag, func() { w.Reset(sink) })
			if !panicked && !hung && epochNo > 1 && finished.sink.FailFrom == 0 {
				replayEpoch(c, finished, seq, mc)
			}
			epochNo++
			ep = &wEpoch{sink: sink, start: len(sink.Buf), afterOff: legacyOffAfterOn}
			if sink.FailFrom != 0 {
				c.Count("epochs_on_a_failing_sink", 1)
			}
			if panicked {
				hung = true
			}
			continue // Reset returns nothing; the new epoch's results start empty
		}
		res := "nil"
		if err != nil {
			res = "err"
		}
		if panicked {
			res = "panic"
			hung = true
		}
		ep.results = append(ep.results, wOpNames[op]+"="+res)
	}
	if epochNo > 1 && !hung && ep.sink.FailFrom == 0 {
		replayEpoch(c, ep, seq, mc)
	}
	if !hung {
		c17Cleanup(c, w, mc, seq)
	}
	c.Count("writer_sequences", 1)
	// cell: the abstract shape of the sequence
	c.Cell("writer/" + mc + "/" + shapeOf(seq))
	if i%5003 == 0 {
		c.Sample(map[string]interface{}{"object": "Writer", "mode": mc, "sequence": seqString(wOpNames, seq)})
	}
}

// c17Cleanup closes a Writer whose history ended without Close, so that its pipeline
// goroutine and block buffers are released (hundreds of thousands of histories run in one
// process).  The Close is one more call of a valid history: if it never returns, that is
// reported; its result is not judged otherwise.
func c17Cleanup(c *Ctx, w *lz4.Writer, mc string, seq []int) {
	if w == nil {
		return
	}
	wr := c.Watch("Writer.Close", func() { _ = w.Close() })
	if wr.Deadlocked {
		c.Violation("deadlock/final-close/"+mc, fmt.Sprintf("Close at the end of the history never returns: every goroutine inside the library is blocked [%s ; Close]", seqString(wOpNames, seq)), map[string]interface{}{"sequence": seqString(wOpNames, seq), "mode": mc, "goroutines": wr.Dump})
	}
	c.Count("cleanup_closes", 1)
}

// shapeOf abstracts a writer sequence to its operation classes (A=apply,
// W=write-ish, F=flush, C=close, R=reset), which is what the lifecycle
// clauses depend on.
func shapeOf(seq []int) string {
	var b strings.Builder
	for k, o := range seq {
		if k >= 6 {
			b.WriteByte('+')
			break
		}
		switch {
		case o <= wApplyLegacyOff:
			b.WriteByte('A')
		case o <= wReadFrom:
			b.WriteByte('W')
		case o == wFlush:
			b.WriteByte('F')
		case o == wClose:
			b.WriteByte('C')
		default:
			b.WriteByte('R')
		}
	}
	return b.String()
}

// replayEpoch: an epoch after Reset must behave like a fresh Writer with the
// same options given the same calls (return values and bytes).
func replayEpoch(c *Ctx, ep *wEpoch, seq []int, mc string) {
	if len(ep.ops) == 0 {
		return
	}
	// do not replay epochs that contain calls after Close (they may not return)
	closed := false
	for _, o := range ep.ops {
		if closed && o != wApplyBC && o != wApplyBS256 && o != wApplySize && o != wApplyNoCC && o != wApplyLegacyOn && o != wApplyLegacyOff {
			return
		}
		if o == wClose {
			closed = true
		}
	}
	// the options the epoch started with are those of its snapshot if it wrote, else nothing to compare
	if !ep.started {
		return
	}
	// Applies inside the epoch before the first write are part of the snapshot already;
	// build the fresh object with the snapshot minus those applies is equivalent, so
	// start from the snapshot and skip leading Apply calls.
	sink := &gen.Sink{Budget: 400, MaxBytes: 8 << 20}
	var results []string
	var w *lz4.Writer
	defer func() {
		if w != nil {
			c17Cleanup(c, w, mc, nil)
		}
	}()
	wr := c.Watch("replay", func() {
		w = lz4.NewWriter(sink)
		if err := w.Apply(ep.snapshot.options()...); err != nil {
			results = append(results, "apply-failed")
			return
		}
		started := false
		for _, o := range ep.ops {
			var err error
			switch o {
			case wApplyBC, wApplyBS256, wApplySize, wApplyNoCC, wApplyLegacyOn, wApplyLegacyOff:
				if !started {
					results = append(results, "skip")
					continue
				}
				err = w.Apply(lz4.BlockChecksumOption(true)) // any option: must be refused while writing
			case wWriteEmpty, wWriteSmall, wWriteBlock, wWriteBig:
				started = true
				_, err = w.Write([][]byte{nil, c17Small, c17Block, c17Big}[o-wWriteEmpty])
			case wReadFrom:
				started = true
				_, err = w.ReadFrom(bytes.NewReader(c17RF))
			case wFlush:
				started = true
				err = w.Flush()
			case wClose:
				started = true
				err = w.Close()
			}
			if err != nil {
				results = append(results, "err")
			} else {
				results = append(results, "nil")
			}
		}
	})
	if wr.Panicked || wr.Deadlocked {
		if wr.Deadlocked {
			c.Violation("deadlock/replay-on-fresh-writer/"+mc, "a fresh Writer deadlocks on a call sequence without calls after Close", map[string]interface{}{"epoch_ops": seqString(wOpNames, ep.ops), "goroutines": wr.Dump})
		}
		return
	}
	c.Count("epochs_replayed_on_fresh_object", 1)
	// compare return values
	for k, o := range ep.ops {
		if k >= len(ep.results) || k >= len(results) || results[k] == "skip" {
			continue
		}
		got := ep.results[k][strings.LastIndex(ep.results[k], "=")+1:]
		if got != results[k] {
			c.Violation("reset-differs-from-fresh/return-value/"+mc, fmt.Sprintf("after Reset, %s returned %s; a fresh Writer with the same options returns %s [%s]", wOpNames[o], got, results[k], seqString(wOpNames, seq)), map[string]interface{}{"sequence": seqString(wOpNames, seq), "epoch_ops": seqString(wOpNames, ep.ops)})
			return
		}
	}
	// bytes are comparable only when the pipeline is quiescent: after Close (or on a sequential Writer)
	quiescent := mc == "sequential"
	for _, o := range ep.ops {
		if o == wClose {
			quiescent = true
		}
	}
	if !ep.failed && quiescent && !bytes.Equal(ep.sink.Buf[ep.start:], sink.Buf) {
		key := "reset-differs-from-fresh/bytes/" + mc
		if ep.afterOff && len(ep.sink.Buf)-ep.start > 5 && ep.sink.Buf[ep.start+5]>>4&7 == 3 {
			key = "block-size-code-3-after-legacy-switched-off/" + mc
		}
		pf, _ := ref.ParseFrame(ep.sink.Buf[ep.start:], ref.ParseOpts{})
		pg, _ := ref.ParseFrame(sink.Buf, ref.ParseOpts{})
		if pf != nil && pg != nil && pf.HasContentSize && pg.HasContentSize && pf.ContentSize != pg.ContentSize && pf.ContentSize == 0 {
			key = "reset-differs-from-fresh/content-size-value-zeroed/" + mc
		}
		c.Violation(key, fmt.Sprintf("after Reset the Writer emitted %d bytes; a fresh Writer with the same options and calls emits %d different bytes [%s]", len(ep.sink.Buf)-ep.start, len(sink.Buf), seqString(wOpNames, seq)), map[string]interface{}{"sequence": seqString(wOpNames, seq), "epoch_ops": seqString(wOpNames, ep.ops), "got": hexs(head(ep.sink.Buf[ep.start:], 80)), "fresh": hexs(head(sink.Buf, 80))})
	}
}
