package main

import (
	"fmt"
	"regexp"
	"runtime"
	"runtime/debug"
	"strings"
	"sync/atomic"
	"time"

	"verif/internal/gen"
)

// Watch runs a library call on its own goroutine while the calling goroutine
// only observes.  If the call does not finish, the goroutine states decide: when
// every goroutine that is inside the library is parked on a channel / mutex /
// cond and none is runnable, nothing can change any more => deadlock (a verdict
// from the state, never from the clock).  The stuck goroutine is abandoned.
// This also works in -race builds, where the runtime's own deadlock detector
// is silent.
type watchResult struct {
	Panicked   bool
	Deadlocked bool
	Dump       string
}

var reGo = regexp.MustCompile(`(?m)^goroutine (\d+) \[([^\]]+)\]:`)

func libGoroutinesAllBlocked() (bool, string) {
	buf := make([]byte, 1<<20)
	for {
		n := runtime.Stack(buf, true)
		if n < len(buf) {
			buf = buf[:n]
			break
		}
		buf = make([]byte, 2*len(buf))
	}
	dump := string(buf)
	lib := 0
	var stuck []string
	for _, blk := range strings.Split(dump, "\n\n") {
		m := reGo.FindStringSubmatch(blk)
		if m == nil || !strings.Contains(blk, "pierrec/lz4") {
			continue
		}
		lib++
		st := m[2]
		if k := strings.Index(st, ","); k >= 0 {
			st = st[:k]
		}
		switch st {
		case "chan send", "chan receive", "select", "sync.Cond.Wait", "sync.Mutex.Lock", "semacquire", "chan send (nil chan)", "chan receive (nil chan)", "select (no cases)", "sync.WaitGroup.Wait", "sync.RWMutex.Lock", "sync.RWMutex.RLock":
			if len(stuck) < 6 {
				stuck = append(stuck, blk)
			}
		default:
			return false, ""
		}
	}
	return lib > 0, strings.Join(stuck, "\n\n")
}

func (c *Ctx) Watch(what string, fn func()) watchResult {
	var fin atomic.Bool
	var res watchResult
	var pmsg, pstack string
	var runaway string
	go func() {
		defer func() {
			if r := recover(); r != nil {
				if be, ok := r.(gen.BudgetExceeded); ok {
					runaway = be.What
				} else {
					pmsg = fmt.Sprint(r)
				}
				pstack = string(debug.Stack())
			}
			fin.Store(true)
		}()
		fn()
	}()
	for spins := 0; ; spins++ {
		if fin.Load() {
			break
		}
		if spins < 200 {
			runtime.Gosched()
		} else {
			time.Sleep(20 * time.Microsecond)
		}
		if spins == 400 || spins%2000 == 1999 {
			if blocked, dump := libGoroutinesAllBlocked(); blocked && !fin.Load() {
				// confirm on a second snapshot (the call might have just completed)
				if blocked2, _ := libGoroutinesAllBlocked(); blocked2 && !fin.Load() {
					res.Deadlocked = true
					res.Dump = dump
					c.Count("deadlock_states_observed", 1)
					return res
				}
			}
		}
		if spins > 200_000_000 {
			panic(harnessPanic{"Watch: call neither finished nor deadlocked (inconclusive)"})
		}
	}
	if pmsg != "" {
		res.Panicked = true
		c.Violation("panic/"+what+"/"+panicSite(pstack), "panic: "+pmsg, map[string]interface{}{"stack": trimStack(pstack)})
	}
	if runaway != "" {
		res.Panicked = true
		c.Violation("runaway/"+what+"/"+panicSite(pstack), "runaway loop: "+runaway, map[string]interface{}{"stack": trimStack(pstack)})
	}
	return res
}
