package main

import (
	"fmt"
	"regexp"
	"runtime"
	"runtime/debug"
	"strings"
	"sync/atomic"
	"time"

	"verif/internal/gen"
	"verif/internal/mon"
)

// Watch runs a library call on its own goroutine while the calling goroutine
// only observes.  If the call does not finish, the goroutine states decide: when
// every goroutine that is inside the library is parked on a channel / mutex /
// cond and none is runnable, nothing can change any more => deadlock (a verdict
// from the state, never from the clock).  The stuck goroutine is abandoned.
// This also works in -race builds, where the runtime's own deadlock detector
// is silent.
type watchResult struct {
	Panicked   bool
	Deadlocked bool
	Runaway    bool // the call passed more hook sites than the step bound allows: an unbounded loop
	Dump       string
}

// stepBound is the number of hook sites one watched call may pass.  The largest
// number seen on a correct tree is recorded in the evidence (max_watch_steps) and
// is more than an order of magnitude below it; a loop that goes round a hook site
// reaches it within seconds.  The bound counts logical steps, not time.
const stepBound = 200_000

// goroutineBlock returns the stack of goroutine gid from a full dump.
func goroutineBlock(gid string) string {
	buf := make([]byte, 4<<20)
	buf = buf[:runtime.Stack(buf, true)]
	for _, blk := range strings.Split(string(buf), "\n\n") {
		if m := reGo.FindStringSubmatch(blk); m != nil && m[1] == gid {
			return blk
		}
	}
	return ""
}

var reGo = regexp.MustCompile(`(?m)^goroutine (\d+) \[([^\]]+)\]:`)

// curGoroutineID parses the id of the calling goroutine from its stack header.
func curGoroutineID() string {
	var b [64]byte
	n := runtime.Stack(b[:], false)
	f := strings.Fields(string(b[:n]))
	if len(f) >= 2 {
		return f[1]
	}
	return ""
}

// libGoroutinesAllBlocked reports whether the watched call (goroutine gid) is
// itself parked inside the library and every other goroutine inside the library
// is parked as well.  The watched goroutine must be among them: if it is running
// harness code (between two library calls of a script) nothing is stuck.
func libGoroutinesAllBlocked(gid string) (bool, string) {
	buf := make([]byte, 1<<20)
	for {
		n := runtime.Stack(buf, true)
		if n < len(buf) {
			buf = buf[:n]
			break
		}
		buf = make([]byte, 2*len(buf))
	}
	dump := string(buf)
	lib := 0
	watchedParked := false
	watchedBlk := ""
	var stuck []string
	for _, blk := range strings.Split(dump, "\n\n") {
		m := reGo.FindStringSubmatch(blk)
		if m == nil || !strings.Contains(blk, "pierrec/lz4") {
			continue
		}
		lib++
		if m[1] == gid {
			watchedParked = true // (state checked below: any non-parked state returns false)
			watchedBlk = "(the watched call) " + blk
		}
		st := m[2]
		if k := strings.Index(st, ","); k >= 0 {
			st = st[:k]
		}
		switch st {
		case "chan send", "chan receive", "select", "sync.Cond.Wait", "sync.Mutex.Lock", "semacquire", "chan send (nil chan)", "chan receive (nil chan)", "select (no cases)", "sync.WaitGroup.Wait", "sync.RWMutex.Lock", "sync.RWMutex.RLock":
			if len(stuck) < 6 && m[1] != gid {
				stuck = append(stuck, blk)
			}
		default:
			return false, ""
		}
	}
	if watchedBlk != "" {
		stuck = append([]string{watchedBlk}, stuck...)
	}
	return lib > 0 && watchedParked, fmt.Sprintf("%d goroutines inside the library, all parked\n\n", lib) + strings.Join(stuck, "\n\n")
}

func (c *Ctx) Watch(what string, fn func()) watchResult {
	var fin atomic.Bool
	var res watchResult
	var pmsg, pstack string
	var runaway string
	var gid atomic.Value
	mon.StepsReset()
	go func() {
		gid.Store(curGoroutineID())
		defer func() {
			if r := recover(); r != nil {
				if be, ok := r.(gen.BudgetExceeded); ok {
					runaway = be.What
				} else {
					pmsg = fmt.Sprint(r)
				}
				pstack = string(debug.Stack())
			}
			fin.Store(true)
		}()
		fn()
	}()
	for spins := 0; ; spins++ {
		if fin.Load() {
			break
		}
		if mon.Steps() > stepBound {
			id, _ := gid.Load().(string)
			blk := goroutineBlock(id)
			if !fin.Load() && strings.Contains(blk, "pierrec/lz4") {
				res.Runaway, res.Panicked, res.Dump = true, true, blk
				c.Violation("runaway-loop/"+what, fmt.Sprintf("%s: one call passed more than %d hook sites without returning (unbounded loop)", what, stepBound), map[string]interface{}{"stack": trimStack(blk)})
				c.needRestart = true // the abandoned goroutine keeps spinning: continue in a fresh process
				return res
			}
		}
		if spins < 200 {
			runtime.Gosched()
		} else {
			time.Sleep(20 * time.Microsecond)
		}
		if spins == 400 || spins%2000 == 1999 {
			id, _ := gid.Load().(string)
			if blocked, dump := libGoroutinesAllBlocked(id); id != "" && blocked && !fin.Load() {
				// A deadlock is a stable state: confirm it on further snapshots, letting the scheduler run in
				// between (a goroutine waiting for a mutex that a runtime or harness goroutine holds looks
				// parked as well, but only for a moment).  Time is used to confirm stability, never as a deadline.
				stable := true
				for k := 0; k < 4 && stable; k++ {
					for j := 0; j < 20; j++ {
						runtime.Gosched()
					}
					time.Sleep(5 * time.Millisecond)
					if b2, _ := libGoroutinesAllBlocked(id); !b2 || fin.Load() {
						stable = false
					}
				}
				if stable {
					res.Deadlocked = true
					res.Dump = dump
					c.Count("deadlock_states_observed", 1)
					return res
				}
				c.Count("transient_all_parked_states", 1)
			}
		}
		if spins > 200_000_000 {
			panic(harnessPanic{"Watch: call neither finished nor deadlocked (inconclusive)"})
		}
	}
	c.Max("max_watch_steps", mon.Steps())
	if pmsg != "" {
		res.Panicked = true
		c.Violation("panic/"+what+"/"+panicSite(pstack), "panic: "+pmsg, map[string]interface{}{"stack": trimStack(pstack)})
	}
	if runaway != "" {
		res.Panicked = true
		c.Violation("runaway/"+what+"/"+panicSite(pstack), "runaway loop: "+runaway, map[string]interface{}{"stack": trimStack(pstack)})
	}
	return res
}
