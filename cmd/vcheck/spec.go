package main

import (
	"encoding/json"
	"fmt"
	"os"
	"path/filepath"
	"regexp"
	"sort"
	"strings"
)

// propSpec is the parent-side description of a property check.
type propSpec struct {
	ID          string
	Level       string // exploration | fault_enumeration
	Rule        string
	Assumptions []string
	Variants    func(tier string) []string
	Shards      func(tier, variant string) int
	Watchdog    func(tier string) int // seconds; expiry alone is inconclusive
	Parallel    int
	MemLimitKB  int
	MaxDeaths   int
	Env         []string
	Pre         func(rs *runState) error
	Post        func(rs *runState)
	Exhaustive  func(rs *runState) bool
	Require     func(rs *runState) string
}

func (s *propSpec) maxDeaths() int {
	if s.MaxDeaths > 0 {
		return s.MaxDeaths
	}
	return 200
}

var specs = map[string]*propSpec{}

func addSpec(s *propSpec) {
	if s.Variants == nil {
		s.Variants = func(string) []string { return []string{"asm"} }
	}
	if s.Shards == nil {
		s.Shards = func(string, string) int { return 16 }
	}
	if s.Watchdog == nil {
		s.Watchdog = func(tier string) int {
			if tier == "thorough" {
				return 7200
			}
			return 1500
		}
	}
	if s.Level == "" {
		s.Level = "exploration"
	}
	specs[s.ID] = s
}

var baseAssumptions = []string{
	"reference implementations in /verif/internal/ref are correct (self-checked on every run against published XXH32 vectors and the golden .lz4 files in testdata)",
	"the Go runtime, race detector and kernel page protection behave as documented",
	"only the amd64 assembly and the portable Go code are executed (no arm/arm64 hardware)",
}

func both(string) []string { return []string{"asm", "noasm"} }

func init() {
	addSpec(&propSpec{
		ID:   "C13",
		Rule: "cases: one-shot lengths 0..1024 x 4 contents x 4 alignments; streaming: exhaustive carry-buffer fill 0..15 x next write {0..49,63..65,4095..4097} x following write 0..33 x {fresh, after one stripe} with Sum32 (twice) and Sum probes after every write and Reset-reuse; random partitions up to 8 MiB; totals 2^32-16..2^32+16 via state copies (thorough: one-shot on real 4 GiB buffers and a Writer trailer for 2^32+5 bytes). A cell is (part, carry, length class); every case compares against the reference so all are non-trivial.",
		Assumptions: baseAssumptions,
		Require: func(rs *runState) string {
			if rs.counters["boundary_probes"] < 66 {
				return "the 2^32 boundary probes did not run"
			}
			return ""
		},
	})
	addSpec(&propSpec{
		ID:   "C19",
		Rule: "complete enumeration: every FLG x BD descriptor (65536) x every checksum byte (256), content-size field present exactly when FLG says so, with 2 (quick) / 16 (thorough) size values incl. 2^64-1; each header goes through ValidFrameHeader and a fresh Reader (Read, Size). A cell is (FLG value, size value index); plus non-magic first words.",
		Assumptions: append([]string{"content-size values are sampled (2 or 16 of 2^64); everything else in the header space is enumerated"}, baseAssumptions...),
		Exhaustive: func(rs *runState) bool {
			// 128 FLG values without size flag + 128 with, times size values
			return rs.counters["headers"] >= 65536*128*3
		},
		Require: func(rs *runState) string {
			if rs.counters["headers"] < 65536*128*3 {
				return fmt.Sprintf("only %d headers enumerated", rs.counters["headers"])
			}
			if rs.counters["accepted"] == 0 {
				return "no header was accepted"
			}
			return ""
		},
	})
}

// ---- race logs -------------------------------------------------------------

var reRaceFrame = regexp.MustCompile(`(?m)^\s+(github\.com/pierrec/lz4/v4[^\s(]*)\(`)

// collectRaceLogs parses the race detector's log files of a variant: exit codes
// are not trusted, "WARNING: DATA RACE" blocks are counted, de-duplicated by
// the pair of innermost library frames of the two accesses.
func (rs *runState) collectRaceLogs(variant string) {
	files, _ := filepath.Glob(filepath.Join(rs.work, "racelog."+variant+".*"))
	sort.Strings(files)
	total := int64(0)
	for _, f := range files {
		b, err := os.ReadFile(f)
		if err != nil {
			continue
		}
		blocks := strings.Split(string(b), "==================")
		for _, blk := range blocks {
			if !strings.Contains(blk, "WARNING: DATA RACE") {
				continue
			}
			total++
			// split into the two access stacks
			parts := regexp.MustCompile(`(?m)^(?:Previous )?(?:[Rr]ead|[Ww]rite|Atomic [a-z]+) (?:at|of size)`).Split(blk, -1)
			var tops []string
			for _, p := range parts[1:] {
				// stop at goroutine creation info
				if i := strings.Index(p, "Goroutine "); i >= 0 {
					p = p[:i]
				}
				m := reRaceFrame.FindStringSubmatch(p)
				if m != nil {
					fn := m[1]
					if k := strings.LastIndex(fn, "/"); k >= 0 {
						fn = fn[k+1:]
					}
					tops = append(tops, fn)
				}
			}
			if !strings.Contains(blk, "pierrec/lz4") {
				rs.mu.Lock()
				rs.counters["race_reports_without_library_frame"]++
				rs.mu.Unlock()
				continue
			}
			sort.Strings(tops)
			key := "race/" + strings.Join(tops, "|")
			det, _ := json.Marshal(map[string]interface{}{"report": tailStr([]byte(blk), 5000), "log": filepath.Base(f)})
			rs.addViolation(&violation{Prop: rs.spec.ID, Key: key, Msg: "data race reported by the race detector in library code", Case: -1, Variant: variant, Tier: rs.tier, Seed: rs.seed, Detail: det})
		}
	}
	rs.mu.Lock()
	rs.counters["race_reports"] += total
	rs.counters["race_logs_scanned"] += int64(len(files))
	rs.mu.Unlock()
}
