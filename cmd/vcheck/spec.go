package main

import (
	"encoding/binary"
	"encoding/json"
	"fmt"
	"os"
	"os/exec"
	"path/filepath"
	"regexp"
	"sort"
	"strings"
)

// propSpec is the parent-side description of a property check.
type propSpec struct {
	ID          string
	Level       string // exploration | fault_enumeration
	Rule        string
	Assumptions []string
	Variants    func(tier string) []string
	Shards      func(tier, variant string) int
	Watchdog    func(tier string) int // seconds; expiry alone is inconclusive
	Parallel    int
	MemLimitKB  int
	MaxDeaths   int
	Env         []string
	Pre         func(rs *runState) error
	Post        func(rs *runState)
	Exhaustive  func(rs *runState) bool
	Require     func(rs *runState) string
}

func (s *propSpec) maxDeaths() int {
	if s.MaxDeaths > 0 {
		return s.MaxDeaths
	}
	return 200
}

var specs = map[string]*propSpec{}

func addSpec(s *propSpec) {
	if s.Variants == nil {
		s.Variants = func(string) []string { return []string{"asm"} }
	}
	if s.Shards == nil {
		s.Shards = func(string, string) int { return 16 }
	}
	if s.Watchdog == nil {
		s.Watchdog = func(tier string) int {
			if tier == "thorough" {
				return 7200
			}
			return 1500
		}
	}
	if s.Level == "" {
		s.Level = "exploration"
	}
	specs[s.ID] = s
}

var baseAssumptions = []string{
	"reference implementations in /verif/internal/ref are correct (self-checked on every run against published XXH32 vectors and the golden .lz4 files in testdata)",
	"the Go runtime, race detector and kernel page protection behave as documented",
	"only the amd64 assembly and the portable Go code are executed (no arm/arm64 hardware)",
}

func both(string) []string { return []string{"asm", "noasm"} }

func init() {
	addSpec(&propSpec{
		ID:          "C13",
		Rule:        "cases: one-shot lengths 0..1024 x 4 contents x 4 alignments; streaming: exhaustive carry-buffer fill 0..15 x next write {0..49,63..65,4095..4097} x following write 0..33 x {fresh, after one stripe} with Sum32 (twice) and Sum probes after every write and Reset-reuse; random partitions up to 8 MiB; totals 2^32-16..2^32+16 via state copies, the tail written in one write, split 1+rest, and split so that a write ends exactly on 2^32 with more writes after it ; 48 frame-usage cases (sizes around the block size x Write / small Writes / ReadFrom x concurrency {1,4} x first and second frame of a reused Writer: header, block and content checksums of the emitted frame judged by the independent parser) (thorough: one-shot on real 4 GiB buffers and a Writer trailer for 2^32+5 bytes). A cell is (part, carry, length class); every case compares against the reference so all are non-trivial.",
		Assumptions: baseAssumptions,
		Require: func(rs *runState) string {
			if rs.counters["boundary_probes"] < 66 {
				return "the 2^32 boundary probes did not run"
			}
			return ""
		},
	})
	addSpec(&propSpec{
		ID:          "C19",
		Rule:        "complete enumeration: every FLG x BD descriptor (65536) x every checksum byte (256), content-size field present exactly when FLG says so, with 3 (quick: 2^64-1, 0, one seeded) / 16 (thorough) size values; each header goes through ValidFrameHeader and a fresh Reader (Read, Size); every header with a correct checksum byte is also delivered to a Reader one byte per read and with one split at a rotating position (same verdict and Size required). Every accepted header (and a sample of the others) is also read by one Reader that is reused with Reset, right after a valid header of the other kind (with / without a content size): verdict and Size as from a new Reader. A cell is (FLG value, size value index); plus non-magic first words.",
		Assumptions: append([]string{"content-size values are sampled (3 or 16 of 2^64); everything else in the header space is enumerated"}, baseAssumptions...),
		Exhaustive: func(rs *runState) bool {
			// 128 FLG values without size flag + 128 with, times size values
			return rs.counters["headers"] >= 65536*128*4
		},
		Require: func(rs *runState) string {
			if rs.counters["headers"] < 65536*128*4 {
				return fmt.Sprintf("only %d headers enumerated", rs.counters["headers"])
			}
			if rs.counters["accepted"] == 0 {
				return "no header was accepted"
			}
			return ""
		},
	})
}

func init() {
	compRule := "sources: lengths 0..40 x 6 content kinds, every string over {a,b} up to length 12 (thorough 17), window-edge data (two copies of a random string at distance 65533..65538, 131071..131073, ...; with a dense run in front so the compressors scan it), literal/match length-code classes (14,15,16,269..272,15+255k+-1 / 18..20,273..275,19+255k+-1), end-rule runs of length 13..80, seeded draws from 12 classes (constant, periodic incl. period dividing the length, random, low entropy, text, LZ-built, tail repeat, ...) up to 4 MiB; entry points: package function, fresh object, one long-lived object reused across the whole case stream, fast and HC at depths {0,1,2,3,4,16,Level1..9,65537,2^20}. A cell is (source class, size class, entry point, depth, block has matches); "
	addSpec(&propSpec{
		ID:          "C01",
		Rule:        compRule + "each block is decoded by the library's UncompressBlock into len(src) bytes and compared with the source.",
		Assumptions: baseAssumptions,
		Require: func(rs *runState) string {
			for _, k := range []string{"blocks_with_offset_65535", "blocks_with_match_after_64K", "blocks_with_multibyte_match_len", "blocks_with_multibyte_literal_len"} {
				if rs.counters[k] == 0 {
					return "no emitted block exercised " + k
				}
			}
			return ""
		},
	})
	addSpec(&propSpec{
		ID:          "C10",
		Rule:        compRule + "every block returned with n>0 for destination sizes {bound, len(src), len(src)/2+8, bound-1, bound+5} is parsed by the independent strict validator (offset 1..65535 within the output, literals-only final sequence, last 5 bytes literals, last match >= 12 bytes before the end) and must decode to the source.",
		Assumptions: baseAssumptions,
		Require: func(rs *runState) string {
			if rs.counters["blocks_with_matches"] == 0 {
				return "no block with a match was validated"
			}
			return ""
		},
	})
	addSpec(&propSpec{
		ID:          "C11",
		Rule:        "sources as for C01 (smaller); destination lengths: every length 0..bound+3 when the bound is <= 400 (thorough 3000), else {0,1,2,n*-2..n*+2,len(src)-1..len(src)+1,bound-1,bound,bound+1,bound+7} plus the output offsets at which the parts of the first 10-40 sequences of the encoded block end (and one and two less: where a room check is decided by a byte or two), plus seeded lengths biased just below the achievable size n*; each destination is a sub-slice of a canary-filled buffer (spare capacity) and, sampled, ends at an unmapped guard page; monitors: panic, n>len(dst), canary change, zero/err at >= bound, err with n!=0, n>0 whose dst[:n] is not a complete block for the source (reference decoder). A cell is (source class, size class, entry point, outcome, destination length relative to n*/bound).",
		Assumptions: baseAssumptions,
	})
}

func init() {
	decRule := "triples (block, dictionary, len(dst)): the full class product of the block grammar (21 literal-length classes x 17 offset classes incl. 0, di, di+1, di+len(dict), di+len(dict)+1, 65535 x 14 match-length classes x 17 distance-to-end classes incl. 'ends after the match' x dictionary lengths {0,20,65535,65536,70000} x with/without a leading sequence), valid compressed blocks decoded into every destination length around the true size, mutations/truncations of valid blocks, token-biased random bytes, random grammar blocks, nil/empty slices; destination lengths exact, one short, +1..+100, short by the tail. Every triple runs in 4 placements: all buffers ending at an unmapped page with read-only inputs, all buffers starting after an unmapped page, and twice on the heap with spare destination capacity holding a canary and different prior contents. A cell is (generator class, reference verdict, library outcome, dictionary size class, features: dict/straddle/overlap/long lengths). "
	threeVariants := func(tier string) []string {
		if tier == "thorough" {
			return []string{"asm", "noasm", "checkptr", "asan"}
		}
		return []string{"asm", "noasm"}
	}
	addSpec(&propSpec{
		ID:          "C03",
		Rule:        decRule + "Judged: panic, fault at a guard page (attributed to src/dst/dict side), canary change, n outside [0,len(dst)] with nil error, inputs modified.",
		Assumptions: append([]string{"guard pages see only accesses that leave the buffer on the side adjacent to the unmapped page; both alignments and canaries are used to cover the other side; the asan/checkptr builds (thorough) see only Go-side accesses of the portable decoder"}, baseAssumptions...),
		Variants:    threeVariants,
		Shards: func(tier, v string) int {
			if v == "asan" || v == "checkptr" {
				return 8
			}
			return 16
		},
	})
	addSpec(&propSpec{
		ID:          "C04",
		Rule:        decRule + "Judged three-valued against the reference decoder: strictly valid blocks that fit must be accepted with exactly the reference bytes; zero offset / offset before the dictionary / truncated / too much output must be rejected; leniently valid blocks may go either way but accepted bytes must be the reference's; results must not depend on placement or on the destination's prior contents.",
		Assumptions: baseAssumptions,
		Variants:    both,
	})
	addSpec(&propSpec{
		ID:          "C12",
		Rule:        decRule + "Both builds (default with the amd64 assembly, and -tags noasm) execute the same seeded stream and log (case, triple, ok/err, n, hash(dst[:n])); the logs are joined by (case, triple) and every record must be identical.",
		Assumptions: baseAssumptions,
		Variants:    both,
		Post:        c12Join,
		Require: func(rs *runState) string {
			if rs.counters["joined_records"] < 100000 {
				return fmt.Sprintf("only %d records joined", rs.counters["joined_records"])
			}
			return ""
		},
	})
}

func init() {
	addSpec(&propSpec{
		ID:          "C14",
		Rule:        "block half (plain build): for each source (classes as C01) and depth, the triple (n, err, dst[:n]) for destination sizes {bound, len(src), n*, n*-1, n*/2, 9} from a fresh object is compared with: an object reused after unrelated inputs, after related inputs (shifted by 1..3 bytes, halves swapped, truncated), after calls that failed on too-small destinations, after a larger input with positions beyond 64 KiB, the worker's long-lived object, the package function after other goroutines cycled the pools, and 8 goroutines compressing simultaneously. Frame half (-race build, block pool replaced by the poisoning quarantine pool, seeded scheduling perturbation): for each (stream, options) the sink bytes of concurrency {1,2,4,16} x Write partitions {one Write, random, block size +-1, 1..3-byte writes for small streams, large random} must equal one Write at concurrency 1; ReadFrom is compared with ReadFrom across concurrency and source fragmentation {plain, random sizes, data with EOF, zero-length reads}. Flush is excluded (it legitimately changes block boundaries). A cell is (half, source class / configuration, size class, depth / concurrency, history / partition style). Flush scripts: the same Flush byte offsets with different Write partitions at concurrency 1, 2, 4, 16 under perturbation must give byte-identical frames.",
		Assumptions: append([]string{"schedules and histories are sampled (real histories only: no state is forged)"}, baseAssumptions...),
		Variants:    func(string) []string { return []string{"asm", "race"} },
		Require: func(rs *runState) string {
			if rs.counters["determinism_comparisons"] == 0 || rs.counters["frame_emissions"] == 0 {
				return "one half of the check did not run"
			}
			return ""
		},
	})
}

func init() {
	rtRule := "configurations: the full product 4 block sizes x block checksum x content checksum x content size x Writer concurrency {1,2,4,GOMAXPROCS} x legacy (256), level rotated over {Fast,Level1..9} (thorough: every level for every configuration); inputs: empty, one byte, block size -1/=/+1, several blocks (exact multiples too), incompressible, highly compressible, contents whose block / content XXH32 is 0 (crafted by inverting XXH32), content sizes for which the header checksum byte is 0x00, flushed message streams in which a block's size word equals the number of bytes decoded so far, and a three-frame script on one reused Writer (some content, an empty frame, a few bytes; each sink judged on its own); delivery: one Write, random partitions, partitions with Flush in between, one ReadFrom from a fragmenting source. "
	addSpec(&propSpec{
		ID:          "C02",
		Rule:        rtRule + "Each emitted stream is read back by fresh Readers with concurrency {1,2,4,GOMAXPROCS} through WriteTo and Read with small / >= block / mixed buffer-size sequences; judged: every Writer call returned nil, decoded bytes equal the input, clean end of stream. A cell is (configuration, input class, delivery, reader concurrency, read mode).",
		Assumptions: baseAssumptions,
	})
	addSpec(&propSpec{
		ID:          "C09",
		Rule:        rtRule + "Each emitted stream is parsed by the independent frame parser in strict-writer mode: magic, version 01, reserved bits 0, configured block-size code / flags / content size, header checksum, blocks <= maximum and strictly valid, block checksum = XXH32 of the stored block bytes present iff configured, end mark, content checksum, decoded content = input, no trailing bytes; legacy: magic then only size-prefixed compressed blocks of 8 MiB content each. A cell is (configuration, input class, delivery, stored/compressed blocks present).",
		Assumptions: baseAssumptions,
		Require: func(rs *runState) string {
			for _, k := range []string{"frames_with_stored_blocks", "frames_with_zero_block_checksum", "frames_with_zero_content_checksum", "multi_block_frames"} {
				if rs.counters[k] == 0 {
					return "no emitted frame exercised " + k
				}
			}
			return ""
		},
	})
}

func init() {
	seedRule := "seed frames: 8 option combinations (block checksum x content checksum x content size) of a 4-block frame with a stored block, 4 of a Flush-made 3-block frame, empty / tiny / ReadFrom-exact-multiple frames with an empty stored block in front of the end mark (put there by hand when the Writer under test does not emit one), 256K blocks, 2 legacy frames, 2 dependent-block frames from the independent encoder (all re-validated by the independent parser before use), plus large ones (1 MiB text in 64K blocks, 9 MiB in 4M blocks, legacy 8 MiB + 70000). "
	addSpec(&propSpec{
		ID:          "C06",
		Level:       "fault_enumeration",
		Rule:        seedRule + "Crash points: EVERY prefix length 1..len-1 of every small seed frame; for large frames every structural boundary +-3 bytes plus 200 (thorough 3000) seeded interior cuts. Each prefix is read by fresh Readers with concurrency {1,2,4} through WriteTo, Read with small buffers and Read with buffers >= block size. Judged: modern frames must end with an error that is not a clean end of stream; legacy frames likewise unless the cut is on a block boundary; delivered bytes must be a prefix of the content. A cell is (seed, position class of the cut: after/inside which field, concurrency, read mode).",
		Assumptions: baseAssumptions,
	})
	addSpec(&propSpec{
		ID:          "C05",
		Rule:        seedRule + "(small, non-legacy seeds). Mutators: every single-bit flip of every structural field (header fields also with the header checksum repaired), block delete / duplicate / swap / foreign insert / splice (plain and with the content checksum repaired), seeded payload bit flips (optionally with the block checksum repaired), 2-3-bit flips, byte substitutions, hostile field overwrites, special words inserted at block boundaries, the first match offset of every compressed block rewritten to reach before the block (block checksum repaired). Each mutant is read with 5 (thorough 9) combinations of concurrency {1,2,4} x {Read small, Read >= block, WriteTo}. Whenever the Reader ends cleanly, the independent parser is run on exactly the consumed bytes and must accept them, end at the same offset and yield the same output. A cell is (seed, mutator, field, outcome stage, concurrency, read mode). Plus hand-built frames of 2^32+1000 content bytes (1024 identical compressed 4 MiB blocks and a short stored one) whose content checksum field is wrong (first block altered; field = XXH32 of the bytes after the 2^32 mark only): a clean end of stream is a violation.",
		Assumptions: append([]string{"header acceptance follows C19's rule (version, reserved and DictID bits are not judged); block grammar in the frame oracle is the lenient one; mutants that turn the first magic into the legacy magic are counted, not judged (legacy streams have no integrity fields)"}, baseAssumptions...),
		Require: func(rs *runState) string {
			if rs.counters["mutants_accepted_by_reader"] == 0 {
				return "no mutant was accepted by the Reader, the oracle never ran"
			}
			return ""
		},
	})
}

func init() {
	addSpec(&propSpec{
		ID:          "C07",
		Rule:        "inputs: random bytes (with and without a plausible magic/header), every structural bit flip and 150 seeded mutants of each seed frame (re-used from C05 without an oracle), 10 families of grammar-built frames with hostile fields (block size 2^31-1, stored 2^31-1, content sizes 2^64-1 / 2^63-1 / 2^62 / 2^40 / 2^32 / 2^30, block just above the maximum, gigantic literal / match lengths, skippable length 2^32-1, legacy oversized blocks, 5000 empty blocks), first-word sweep (all 256 words 0x184D2Axx, every 1- and 2-bit neighbour of the magics, seeded random words), skippable frames in front of valid frames (all 16 magics, lengths 0..70000; also read from a pipe, from a regular file and from a regular file cut inside the user data), and streamed repetitions of one field 10M (thorough 25M) times: legacy magic, skippable frames, empty stored blocks, one-byte blocks. Each with concurrency 1 and 4 through Read and WriteTo (destinations rotate: bare io.Writer, a writer with the optional Grow method that records what it is asked to reserve, a real bytes.Buffer), in child processes. Monitors: panic, child death (stack overflow, fault), runaway loop / no progress, deadlock state, allocation profile (no allocation made directly by library code, and no Grow reservation it asks a destination for, larger than 2 x the block maximum the input declares + 256 KiB), goroutine stack growth (<= 64 MiB), peak RSS as an observation, ErrInvalidFrame for non-magics, exact skipping for the 16 skippable magics. A cell is (input family, outcome, concurrency, read mode).",
		Assumptions: append([]string{"'never blocks forever' is decided as bounded progress: sources are finite and budgeted; a hang shows up as the runtime's deadlock report, a budget overrun or a watchdog dump in a deadlock state", "memory monitor: the runtime allocation profile at sampling rate 1 attributes every heap allocation to its call stack; only allocations whose first non-runtime frame is library code are judged (a caller-supplied writer growing its buffer is not the library); goroutine stacks are watched through MemStats.StackInuse"}, baseAssumptions...),
		Watchdog:    func(tier string) int { return 1800 },
		Require: func(rs *runState) string {
			if rs.counters["repetition_runs"] < 10 {
				return "the long-repetition inputs did not all run"
			}
			if rs.counters["first_words_tested"] < 1000 {
				return "first-word sweep did not run"
			}
			return ""
		},
	})
}

func init() {
	addSpec(&propSpec{
		ID:          "C17",
		Rule:        "call histories: ALL sequences of length <= 4 (thorough 5) over the Writer alphabet {Apply(BlockChecksum|BlockSize256K|Size with a zero header checksum byte|NoChecksum|LegacyOn|LegacyOff), Write(0|100|65536|70000), ReadFrom(1000), Flush, Close, Reset(same sink|new sink|a sink that fails from its second call on)} on a sequential and on a concurrent (4) Writer, and over the Reader alphabet {Apply(Concurrency), Read(0|100|70000), ReadUntilEOF, WriteTo, Size, Reset(onto frame A | legacy frame B | block-checksummed frame C | dependent-block frame D | frames E, F that are invalid on their own because their first match reaches before the start of the frame)} on sequential and concurrent Readers with and without trailing bytes after the frame; plus 3000 (thorough 40000) seeded random sequences of length 5..12 each. Each call runs under the in-process monitor (deadlock: every goroutine inside the library parked, stable over five snapshots; runaway loop: more than 200000 hook sites passed by one call), with budgeted sinks and sources; every history ends with an unjudged Close / drain. The model asserts only the property's clauses: no hang/panic; a nil Close => the bytes since the last Reset are one valid frame with the accepted data once and in order and the options of the epoch; Apply refused while writing; an epoch after Reset equals a fresh object (differential replay of return values and bytes); writes after Close fail without output, second Close emits nothing; after end of stream Read = (0, io.EOF) without consuming the source; after Flush on a sequential Writer the sink decodes to everything written. A cell is (object, mode, abstract shape of the sequence). Compression level: 100 directed Writer histories (10 levels x {Apply-Write-Close, Apply-Close-Reset-Write-Close, ReadFrom, Reset then Apply of another option, Apply twice} x {sequential, concurrent}) on a probe whose blocks compress differently at Fast, Level1 and Level2+; a block that equals the block compressor's output of another level than the configured one is a violation (option-without-effect).",
		Assumptions: append([]string{"calls the property is silent about (ReadFrom after Write, WriteTo after a partial Read, ...) may return anything except a hang or a panic"}, baseAssumptions...),
		MaxDeaths:   100000,
		Watchdog:    func(tier string) int { return 600 },
		Require: func(rs *runState) string {
			for _, k := range []string{"closed_frames_validated", "epochs_replayed_on_fresh_object", "flush_prefix_checks", "reads_after_eof_checked", "streams_read_to_eof"} {
				if rs.counters[k] == 0 {
					return "the model clause behind " + k + " was never exercised"
				}
			}
			return ""
		},
	})
}

func init() {
	addSpec(&propSpec{
		ID:          "C16",
		Rule:        "dependent-block frames from the independent encoder (content and sequences generated together): block-size codes {4,5,6,7}, content 100 B .. 1 MB, block sizes from 5 bytes to the maximum (a 'tiny blocks' regime of 5..300-byte blocks included), offsets drawn from {maximum reachable, 1..16, into the previous block, two or more blocks back, exactly 65535, random}, match lengths up to 70000 (spanning blocks), 0/15/40% stored blocks, with/without block and content checksums and content size; each frame is re-validated by the independent parser, then read by Readers with concurrency {1,2,4,GOMAXPROCS} through WriteTo and Read with small / >= block (direct path) / mixed buffers, in the assembly and the noasm build; plus the reference encoder's linked golden file against its independent-blocks sibling. A cell is (block-size code, content size class, block regime, stored share, checksums, concurrency, read mode).",
		Assumptions: baseAssumptions,
		Variants:    both,
		Require: func(rs *runState) string {
			for _, k := range []string{"matches_from_two_or_more_blocks_back", "matches_offset_65535", "stored_blocks", "frames_crossing_trim_threshold_with_small_blocks", "matches_straddling_block_start"} {
				if rs.counters[k] == 0 {
					return "the generated frames never exercised " + k
				}
			}
			return ""
		},
	})
}

func init() {
	addSpec(&propSpec{
		ID:          "C18",
		Rule:        "sources {0,1,100,65535,65536,65537,131072,300K bytes} x {compressible, incompressible} x 6 option sets (block size, block checksum, content checksum, content size, level); read sizes cycle through triples (a,b,c) over the classes {0,1,2,3,6,7,8,100,4096, first block record -1/=/+1, header+first block record -1/=/+1 (buffer boundary coinciding with a block boundary), header+2 records, whole frame, frame+1, frame+100}: ALL triples for sources <= 70000 bytes, 40 seeded triples per chunk otherwise; every fifth pattern with a fragmenting source (1-byte, random, data+EOF, zero-length reads); plus every call index of the source failing (with and without data) for a 3-size cycle. Per-call monitor: 0<=n<=len(p), progress when len(p)>0; the concatenation up to io.EOF must be one frame accepted by the independent parser in strict-writer mode (no trailing bytes) reflecting the options and decoding to the source; injected source errors must come back (errors.Is). A cell is (options, source, size classes of the triple, source mode). Reuse scenarios 6/7: read to EOF, Reset, Apply(smaller / larger block size, other checksums), a 300 KB source. Compression level: 20 cases (10 levels x new / reused reader) judged by the level probe of C17.",
		Assumptions: baseAssumptions,
		Require: func(rs *runState) string {
			if rs.counters["source_fault_points"] == 0 || rs.counters["read_patterns"] < 1000 {
				return "too few read patterns / no source fault points were executed"
			}
			return ""
		},
	})
}

func init() {
	addSpec(&propSpec{
		ID:          "C15",
		Level:       "fault_enumeration",
		Rule:        "Writer: 5 call scripts (Write/Flush mix, one ReadFrom, small flushed writes, empty, one big Write) x 12 configurations that change the sink call pattern (concurrency 1/4, block checksum, content size, legacy, no content checksum); a dry run counts the sink calls N, then EVERY k in 1..N (sampled above 400) is executed with the sink failing from call k on (persistent; each failing call returns its own error value) and with only call k failing (transient), each with 0 bytes and with a proper prefix accepted; the script stops at the first error and then calls Close. Judged: some call returns an error that errors.Is the FIRST injected one; (persistent) the sink holds a prefix of the fault-free output. Reader: every source call index k of every seed frame x {conc 1,4} x {WriteTo, Read small, Read >= block}, failing with 0 bytes and together with data: never a clean end, the error is an injected one, delivered bytes are a prefix. Fragmentation: every seed x reader mode x {single bytes, random sizes, data together with io.EOF, interleaved zero-length reads} must decode exactly as with a plain source. A cell is (side, configuration/seed, script or read mode, fault model, position class of k).",
		Assumptions: append([]string{"a source call that fails but also fills the request completely is treated as a success by io.ReadFull; the persistent fault is then reported with the next call's error value, so on the reader side any injected error of the same source is accepted"}, baseAssumptions...),
		Require: func(rs *runState) string {
			if rs.counters["sink_fault_points"] < 500 || rs.counters["source_fault_points"] < 500 || rs.counters["fragmented_reads"] < 100 {
				return "too few fault points enumerated"
			}
			return ""
		},
	})
}

func init() {
	addSpec(&propSpec{
		ID:          "C08",
		Rule:        "built with -race and the verif hooks on (block pool replaced by a quarantining pool that poisons released buffers with 0xDB and verifies the poison when they are handed out again, LIFO or FIFO; seeded scheduling perturbation at 10 yield sites between the pipeline's critical sections in three modes: jitter, one site slowed for the whole run, none; event log). Writer: 7 call scripts {Write partitions, Write+Flush mid-stream, ReadFrom, Close->Reset->reuse, Reset without Close, sink failing at a seeded call, slow sink} x concurrency {2,3,4,16} x block counts {0,1,2,c-1,c,c+1,4c} (pairwise distinct 64 KiB blocks, so a reorder shows in the bytes) x 6 (thorough 120) perturbation seeds, content / block checksums, legacy frames and content sizes (one with a zero header checksum byte) varied, OnBlockDone installed; Reader: concurrency {2,4,16} x {Read small, Read >= block, WriteTo} x {valid frame, a flipped payload bit (early decoding error), source failing at a seeded call, an empty block then a corrupted block, Reset onto another frame while the pipeline of the first is still running, Reset after a WriteTo whose destination failed mid-stream} x 2 frame sizes x seeds. Monitors: race detector reports with a library frame (logs parsed, de-duplicated); poison integrity (write after release), poison in output (read after release), double release; sink bytes equal to the sequential Writer's for the same calls; event log FIFO and exactly-once; in-process deadlock monitor (every library goroutine parked); goroutine census after Close / after EOF or error (parked leftovers = leak). A cell is (object, script/condition, concurrency, block count, perturbation mode) or a distinct interleaving (hash of the hook event order). Writer script reuse-with-new-callback: Close, Reset, Apply(another OnBlockDone callback): nothing of the finished frame may still touch the Writer (race reports).",
		Assumptions: append([]string{"interleavings are sampled under perturbation, not enumerated; the evidence reports how many distinct ones were observed", "goroutines left behind when the caller abandons a Reader mid-stream are outside the statement and not judged"}, baseAssumptions...),
		Variants:    func(string) []string { return []string{"race"} },
		Watchdog:    func(tier string) int { return 3000 },
		Post: func(rs *runState) {
			n := 0
			for k := range rs.cells {
				if strings.HasPrefix(k, "interleaving/") {
					n++
				}
			}
			rs.counters["distinct_interleavings"] = int64(n)
		},
		Require: func(rs *runState) string {
			if rs.counters["hook_events"] < 1000 || rs.counters["poison_checks"] == 0 || rs.counters["goroutine_censuses"] == 0 {
				return "hooks were not reached (no events / poison checks / censuses)"
			}
			if rs.counters["race_logs_scanned"] == 0 && rs.counters["race_reports"] == 0 {
				// no log file is written when there is no report; that is fine
			}
			return ""
		},
	})
}

// buildLz4c builds cmd/lz4c against the tree under test (its go.mod pins a release,
// so an alternative module file with a replace directive is generated).
func buildLz4c(rs *runState) error {
	src := filepath.Join(repoDir, "cmd", "lz4c")
	mod, err := os.ReadFile(filepath.Join(src, "go.mod"))
	if err != nil {
		return err
	}
	sum, _ := os.ReadFile(filepath.Join(src, "go.sum"))
	bin := filepath.Join(verifDir, ".bin")
	os.MkdirAll(bin, 0o755)
	modPath := filepath.Join(bin, "lz4c.mod")
	m := string(mod) + "\nreplace github.com/pierrec/lz4/v4 => " + repoDir + "\n"
	if err := os.WriteFile(modPath, []byte(m), 0o644); err != nil {
		return err
	}
	if err := os.WriteFile(filepath.Join(bin, "lz4c.sum"), sum, 0o644); err != nil {
		return err
	}
	out := filepath.Join(bin, "lz4c")
	cmd := exec.Command("go", "build", "-modfile="+modPath, "-o", out, ".")
	cmd.Dir = src
	cmd.Env = goEnv()
	if b, err := cmd.CombinedOutput(); err != nil {
		return fmt.Errorf("cannot build lz4c against the working tree: %v\n%s", err, b)
	}
	// make sure the binary really uses the tree under test
	vb, err := exec.Command("go", "version", "-m", out).CombinedOutput()
	if err != nil || !strings.Contains(string(vb), "=>") {
		return fmt.Errorf("lz4c was not built against %s:\n%s", repoDir, vb)
	}
	rs.spec.Env = append(rs.spec.Env, "VERIF_LZ4C="+out)
	return nil
}

func init() {
	addSpec(&propSpec{
		ID:          "C20",
		Rule:        "lz4c is built from cmd/lz4c against the working tree (go build -modfile with a replace directive; checked with go version -m) and run in scratch directories: flag sets from a mixed-radix enumeration over -size {default,64K,256K,1M,4M} x -bc x -sc x -l {absent,0..9} x -c {absent,1,2} (all pairs occur), file sizes {0,1,1000, block size -1/=/+1, 3 blocks+777, random} x contents {text, random, mixed} x 15 file names (ending in one of the characters of the .lz4 suffix, already carrying the suffix, with a space, upper case, one letter, non-ASCII) x mode bits {0600,0644,0755,0664,0666,0777,0640} x umask {022,0}, file mode and stdin/stdout mode, pre-existing (longer, other mode) output files, every sixth case also two files in one invocation. Monitors: exit status / termination; the .lz4 output parsed by the independent frame parser (C09 rules); header bits against the usage text (-bc => block checksums, '-sc disable stream checksum' => content checksum absent with the flag and present without, -size => block-size code); -l N => byte-identical to the library Writer at level N; uncompress restores bytes and permission bits. A cell is (flag set, size class, mode, umask, file/stdio).",
		Assumptions: append([]string{"third-party modules of lz4c (cmdflag, progressbar, bytefmt) are used as found in the module cache"}, baseAssumptions...),
		Pre:         buildLz4c,
		Require: func(rs *runState) string {
			if rs.counters["multi_file_invocations"] == 0 || rs.counters["lz4c_cases"] < 100 {
				return "too few lz4c invocations"
			}
			return ""
		},
	})
}

// c12Join compares the result logs of the asm and noasm workers shard by shard.
func c12Join(rs *runState) {
	for shard := 0; shard < 16; shard++ {
		a := readRes(rs.work, "asm", shard)
		b := readRes(rs.work, "noasm", shard)
		i, j := 0, 0
		for i+32 <= len(a) && j+32 <= len(b) {
			ka := resKey(a[i:])
			kb := resKey(b[j:])
			switch {
			case ka < kb:
				i += 32
				rs.counters["unjoined_records"]++
			case kb < ka:
				j += 32
				rs.counters["unjoined_records"]++
			default:
				rs.counters["joined_records"]++
				if a[i+16] == 1 && b[j+16] == 1 {
					rs.counters["joined_both_ok"]++
				} else if a[i+16] == 0 && b[j+16] == 0 {
					rs.counters["joined_both_err"]++
				}
				if string(a[i+12:i+32]) != string(b[j+12:j+32]) {
					cs := int64(binary.LittleEndian.Uint64(a[i:]))
					sub := binary.LittleEndian.Uint32(a[i+8:])
					desc := func(r []byte) string {
						st := []string{"error", "ok", "fault"}[r[16]%3]
						return fmt.Sprintf("%s n=%d hash=%016x", st, int32(binary.LittleEndian.Uint32(r[12:])), binary.LittleEndian.Uint64(r[24:]))
					}
					kind := "outcome"
					if a[i+16] == b[j+16] {
						kind = "bytes-or-length"
					}
					det, _ := json.Marshal(map[string]interface{}{"case": cs, "triple": sub, "asm": desc(a[i:]), "noasm": desc(b[j:])})
					rs.addViolation(&violation{Prop: "C12", Key: "asm-noasm-differ/" + kind, Msg: fmt.Sprintf("case %d triple %d: assembly decoder: %s; portable decoder: %s", cs, sub, desc(a[i:]), desc(b[j:])),
						Case: cs, Variant: "noasm", Tier: rs.tier, Seed: rs.seed, Detail: det})
				}
				i += 32
				j += 32
			}
		}
	}
}

func resKey(r []byte) uint64 {
	return binary.LittleEndian.Uint64(r)<<24 | uint64(binary.LittleEndian.Uint32(r[8:]))
}

func readRes(work, variant string, shard int) []byte {
	var all []byte
	for attempt := 0; ; attempt++ {
		b, err := os.ReadFile(filepath.Join(work, fmt.Sprintf("%s.%d.%d.jsonl.res", variant, shard, attempt)))
		if err != nil {
			break
		}
		all = append(all, b[:len(b)/32*32]...)
	}
	return all
}

// ---- race logs -------------------------------------------------------------

var reRaceFrame = regexp.MustCompile(`(?m)^\s+(github\.com/pierrec/lz4/v4[^\s(]*)\(`)

// collectRaceLogs parses the race detector's log files of a variant: exit codes
// are not trusted, "WARNING: DATA RACE" blocks are counted, de-duplicated by
// the pair of innermost library frames of the two accesses.
func (rs *runState) collectRaceLogs(variant string) {
	files, _ := filepath.Glob(filepath.Join(rs.work, "racelog."+variant+".*"))
	sort.Strings(files)
	total := int64(0)
	for _, f := range files {
		b, err := os.ReadFile(f)
		if err != nil {
			continue
		}
		blocks := strings.Split(string(b), "==================")
		for _, blk := range blocks {
			if !strings.Contains(blk, "WARNING: DATA RACE") {
				continue
			}
			total++
			// split into the two access stacks
			parts := regexp.MustCompile(`(?m)^(?:Previous )?(?:[Rr]ead|[Ww]rite|Atomic [a-z]+) (?:at|of size)`).Split(blk, -1)
			var tops []string
			for _, p := range parts[1:] {
				// stop at goroutine creation info
				if i := strings.Index(p, "Goroutine "); i >= 0 {
					p = p[:i]
				}
				m := reRaceFrame.FindStringSubmatch(p)
				if m != nil {
					fn := m[1]
					if k := strings.LastIndex(fn, "/"); k >= 0 {
						fn = fn[k+1:]
					}
					tops = append(tops, fn)
				}
			}
			if !strings.Contains(blk, "pierrec/lz4") {
				rs.mu.Lock()
				rs.counters["race_reports_without_library_frame"]++
				rs.mu.Unlock()
				continue
			}
			sort.Strings(tops)
			key := "race/" + strings.Join(tops, "|")
			det, _ := json.Marshal(map[string]interface{}{"report": tailStr([]byte(blk), 5000), "log": filepath.Base(f)})
			rs.addViolation(&violation{Prop: rs.spec.ID, Key: key, Msg: "data race reported by the race detector in library code", Case: -1, Variant: variant, Tier: rs.tier, Seed: rs.seed, Detail: det})
		}
	}
	rs.mu.Lock()
	rs.counters["race_reports"] += total
	rs.counters["race_logs_scanned"] += int64(len(files))
	rs.mu.Unlock()
}
