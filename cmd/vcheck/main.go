// vcheck is the parent driver: it rebuilds the workers from /repo's working
// tree, shards a property's case space over child processes, observes how the
// children end (summary, death, watchdog), aggregates what the monitors saw,
// classifies violations against known_findings.json and writes the evidence.
package main

import (
	"bufio"
	"bytes"
	"encoding/binary"
	"encoding/json"
	"fmt"
	"os"
	"os/exec"
	"path/filepath"
	"regexp"
	"sort"
	"strconv"
	"strings"
	"sync"
	"time"

	"verif/internal/ref"
)

// verifDir is where this framework lives (the directory run.sh is in); repoDir
// is the tree under test: /repo unless VERIF_REPO names a scratch copy (used
// only to try seeded changes without touching /repo).
var (
	verifDir = "/verif"
	repoDir  = "/repo"
	altMod   = ""
)

func initDirs() {
	if d := os.Getenv("VERIF_DIR"); d != "" {
		verifDir = d
	} else if wd, err := os.Getwd(); err == nil {
		if _, err := os.Stat(filepath.Join(wd, "cmd", "vcheck")); err == nil {
			verifDir = wd
		}
	}
	if r := os.Getenv("VERIF_REPO"); r != "" && r != "/repo" {
		repoDir = r
		// alternative go.mod whose replace directive points at the scratch copy
		b, err := os.ReadFile(filepath.Join(verifDir, "go.mod"))
		if err != nil {
			fmt.Fprintln(os.Stderr, "BROKEN:", err)
			os.Exit(2)
		}
		os.MkdirAll(filepath.Join(verifDir, ".bin"), 0o755)
		altMod = filepath.Join(verifDir, ".bin", "alt.mod")
		nb := strings.Replace(string(b), "=> /repo", "=> "+r, 1)
		if err := os.WriteFile(altMod, []byte(nb), 0o644); err != nil {
			fmt.Fprintln(os.Stderr, "BROKEN:", err)
			os.Exit(2)
		}
	}
}

type violation struct {
	Prop    string          `json:"prop"`
	Key     string          `json:"key"`
	Msg     string          `json:"msg"`
	Case    int64           `json:"case"`
	Variant string          `json:"variant"`
	Tier    string          `json:"tier"`
	Seed    uint64          `json:"seed"`
	Detail  json.RawMessage `json:"detail,omitempty"`
	Count   int64           `json:"count"`
}

type summary struct {
	Prop     string            `json:"prop"`
	Variant  string            `json:"variant"`
	Shard    int               `json:"shard"`
	Evals    int64             `json:"evals"`
	Cells    map[string]int64  `json:"cells"`
	Counters map[string]int64  `json:"counters"`
	Samples  []json.RawMessage `json:"samples"`
	ViolN    map[string]int64  `json:"viol_counts"`
}

type known struct {
	Property string `json:"property"`
	Key      string `json:"key"`
	Status   string `json:"status"` // open | fixed
	Commit   string `json:"commit,omitempty"`
	What     string `json:"what"`
}

type runState struct {
	spec     *propSpec
	tier     string
	seed     uint64
	work     string
	mu       sync.Mutex
	viols    map[string]*violation // key -> first witness
	cells    map[string]int64
	counters map[string]int64
	samples  []json.RawMessage
	evals    int64
	deaths   int64
	restarts int64
	inconcl  []string
	broken   []string
}

func main() {
	initDirs()
	args := os.Args[1:]
	if len(args) >= 2 && args[0] == "--replay" {
		os.Exit(replay(args[1]))
	}
	if len(args) < 1 {
		fmt.Fprintln(os.Stderr, "usage: vcheck <property> [quick|thorough] | --replay <file>")
		os.Exit(2)
	}
	prop := args[0]
	tier := os.Getenv("VERIF_TIER")
	if len(args) >= 2 {
		tier = args[1]
	}
	if tier != "thorough" {
		tier = "quick"
	}
	seed := uint64(1)
	if s := os.Getenv("VERIF_SEED"); s != "" {
		if v, err := strconv.ParseInt(s, 10, 64); err == nil {
			seed = uint64(v)
		} else if u, err := strconv.ParseUint(s, 10, 64); err == nil {
			seed = u
		}
	}
	spec := specs[prop]
	if spec == nil {
		fmt.Fprintf(os.Stderr, "unknown property %s\n", prop)
		os.Exit(2)
	}
	os.Exit(runCheck(spec, tier, seed))
}

func goEnv() []string {
	env := os.Environ()
	env = append(env, "GOFLAGS=-mod=mod", "GOPROXY=off", "GOSUMDB=off", "GOTOOLCHAIN=local")
	return env
}

func variantBuildArgs(v string) []string {
	switch v {
	case "asm":
		return []string{"-tags", "verif"}
	case "noasm":
		return []string{"-tags", "verif,noasm"}
	case "race":
		return []string{"-race", "-tags", "verif"}
	case "racenoasm":
		return []string{"-race", "-tags", "verif,noasm"}
	case "asan":
		return []string{"-asan", "-tags", "verif,noasm"}
	case "checkptr":
		return []string{"-gcflags=all=-d=checkptr", "-tags", "verif,noasm"}
	}
	return nil
}

func buildVariant(v string) error {
	out := filepath.Join(verifDir, ".bin", "worker_"+v)
	args := append([]string{"build"}, variantBuildArgs(v)...)
	if altMod != "" {
		args = append(args, "-modfile="+altMod)
	}
	args = append(args, "-o", out, "./cmd/worker")
	cmd := exec.Command("go", args...)
	cmd.Dir = verifDir
	cmd.Env = goEnv()
	b, err := cmd.CombinedOutput()
	if err != nil {
		return fmt.Errorf("go %s: %v\n%s", strings.Join(args, " "), err, b)
	}
	return nil
}

func runCheck(spec *propSpec, tier string, seed uint64) int {
	t0 := time.Now()
	rs := &runState{spec: spec, tier: tier, seed: seed, viols: map[string]*violation{}, cells: map[string]int64{}, counters: map[string]int64{}}
	rs.work = filepath.Join(verifDir, ".work", spec.ID)
	os.RemoveAll(rs.work)
	if err := os.MkdirAll(rs.work, 0o755); err != nil {
		fmt.Fprintln(os.Stderr, "BROKEN:", err)
		return 2
	}
	defer func() {
		if os.Getenv("VERIF_KEEP_WORK") == "" {
			os.RemoveAll(rs.work)
		}
	}()
	os.MkdirAll(filepath.Join(verifDir, "evidence"), 0o755)
	os.MkdirAll(filepath.Join(verifDir, ".bin"), 0o755)

	// 1. oracle self-check (artefacts that do not come from the library)
	nself, err := ref.SelfCheck(filepath.Join(repoDir, "testdata"))
	if err != nil {
		fmt.Fprintln(os.Stderr, "BROKEN: oracle self-check failed:", err)
		return 2
	}
	rs.counters["oracle_selfcheck_artefacts"] = int64(nself)

	// 2. rebuild from the working tree
	variants := spec.Variants(tier)
	for _, v := range variants {
		if err := buildVariant(v); err != nil {
			fmt.Fprintln(os.Stderr, "BROKEN: cannot build worker from /repo's working tree:", err)
			return 2
		}
	}
	if spec.Pre != nil {
		if err := spec.Pre(rs); err != nil {
			fmt.Fprintln(os.Stderr, "BROKEN:", err)
			return 2
		}
	}

	// 3. run the shards
	type job struct {
		variant string
		shard   int
		nshards int
	}
	var jobs []job
	for _, v := range variants {
		n := spec.Shards(tier, v)
		for s := 0; s < n; s++ {
			jobs = append(jobs, job{v, s, n})
		}
	}
	par := 16
	if spec.Parallel > 0 {
		par = spec.Parallel
	}
	sem := make(chan struct{}, par)
	var wg sync.WaitGroup
	for _, j := range jobs {
		wg.Add(1)
		sem <- struct{}{}
		go func(j job) {
			defer wg.Done()
			defer func() { <-sem }()
			rs.runShard(j.variant, j.shard, j.nshards)
		}(j)
	}
	wg.Wait()

	// 4. property-specific post-processing (joins, race logs)
	for _, v := range variants {
		if strings.HasPrefix(v, "race") {
			rs.collectRaceLogs(v)
		}
	}
	if spec.Post != nil {
		spec.Post(rs)
	}

	// 5. verdict
	return rs.finish(t0)
}

func (rs *runState) addViolation(v *violation) {
	rs.mu.Lock()
	defer rs.mu.Unlock()
	if old, ok := rs.viols[v.Prop+"\x00"+v.Key]; ok {
		old.Count += maxI(v.Count, 1)
		if v.Case < old.Case { // keep the smallest case index as the witness (stable across shard timing)
			cnt := old.Count
			*old = *v
			old.Count = cnt
		}
		return
	}
	if v.Count == 0 {
		v.Count = 1
	}
	rs.viols[v.Prop+"\x00"+v.Key] = v
}

func maxI(a, b int64) int64 {
	if a > b {
		return a
	}
	return b
}

// runShard runs one worker to completion, restarting it after a death.
func (rs *runState) runShard(variant string, shard, nshards int) {
	start := int64(0)
	recycled := 0 // restarts asked for by the worker itself (not deaths)
	for attempt := 0; ; attempt++ {
		base := filepath.Join(rs.work, fmt.Sprintf("%s.%d.%d", variant, shard, attempt))
		outPath := base + ".jsonl"
		logPath := base + ".log"
		args := []string{"-s", "QUIT", "-k", "20", strconv.Itoa(rs.spec.Watchdog(rs.tier)),
			filepath.Join(verifDir, ".bin", "worker_"+variant),
			"-prop", rs.spec.ID, "-tier", rs.tier, "-seed", strconv.FormatUint(rs.seed, 10),
			"-shard", strconv.Itoa(shard), "-nshards", strconv.Itoa(nshards),
			"-start", strconv.FormatInt(start, 10), "-variant", variant, "-out", outPath, "-repo", repoDir}
		cmd := exec.Command("timeout", args...)
		cmd.Dir = rs.work
		env := os.Environ()
		if strings.HasPrefix(variant, "race") {
			env = append(env, fmt.Sprintf("GORACE=halt_on_error=0 history_size=5 log_path=%s", filepath.Join(rs.work, fmt.Sprintf("racelog.%s.%d", variant, shard))))
		}
		if variant == "asan" {
			env = append(env, "ASAN_OPTIONS=detect_leaks=0:abort_on_error=0:halt_on_error=1")
		}
		env = append(env, rs.spec.Env...)
		cmd.Env = env
		lf, err := os.Create(logPath)
		if err != nil {
			rs.noteBroken("cannot create log: " + err.Error())
			return
		}
		cmd.Stdout, cmd.Stderr = lf, lf
		if rs.spec.MemLimitKB > 0 {
			// run under ulimit -v via sh
			sh := fmt.Sprintf("ulimit -v %d; exec timeout \"$@\"", rs.spec.MemLimitKB)
			cmd = exec.Command("sh", append([]string{"-c", sh, "sh"}, args...)...)
			cmd.Dir, cmd.Env, cmd.Stdout, cmd.Stderr = rs.work, env, lf, lf
		}
		runErr := cmd.Run()
		lf.Close()
		code := 0
		if ee, ok := runErr.(*exec.ExitError); ok {
			code = ee.ExitCode()
		} else if runErr != nil {
			rs.noteBroken("cannot run worker: " + runErr.Error())
			return
		}
		gotSummary := rs.absorb(outPath)
		if gotSummary && (code == 0 || code == 66) {
			return
		}
		// The child died (or was stopped by the watchdog) before finishing.
		logb, _ := os.ReadFile(logPath)
		cur, tag := readCur(outPath + ".cur")
		if code == 3 {
			rs.noteBroken(fmt.Sprintf("worker %s shard %d reported an internal error: %s", variant, shard, tailStr(logb, 400)))
			return
		}
		if cur < 0 {
			rs.noteBroken(fmt.Sprintf("worker %s shard %d died before its first case (exit %d): %s", variant, shard, code, tailStr(logb, 600)))
			return
		}
		if code == 67 {
			// the worker asked for a fresh process after abandoning a runaway goroutine (violation already recorded)
			rs.mu.Lock()
			rs.restarts++
			rs.counters["worker_processes_restarted_on_request"]++
			rs.mu.Unlock()
			if cur < start {
				rs.noteBroken(fmt.Sprintf("worker %s shard %d asked for a restart without progress (case %d)", variant, shard, cur))
				return
			}
			recycled++
			start = cur + 1
			continue
		}
		kind, site, inconclusive := classifyDeath(code, logb)
		rs.mu.Lock()
		rs.deaths++
		rs.evals += 0
		rs.mu.Unlock()
		if inconclusive {
			rs.mu.Lock()
			rs.inconcl = append(rs.inconcl, fmt.Sprintf("%s: %s shard %d stopped at case %d (%s): not a deadlock state and no crash report, verdict inconclusive for that case", kind, variant, shard, cur, site))
			rs.mu.Unlock()
		} else {
			key := "death/" + kind + "/" + site
			if tag != "" {
				key = "death/" + kind + "/" + tag
			}
			det, _ := json.Marshal(map[string]interface{}{"exit": code, "tag": tag, "log_tail": tailStr(logb, 6000)})
			rs.addViolation(&violation{Prop: rs.spec.ID, Key: key, Msg: fmt.Sprintf("child process died (%s) while executing case %d [%s]", kind, cur, tag),
				Case: cur, Variant: variant, Tier: rs.tier, Seed: rs.seed, Detail: det})
		}
		if attempt-recycled > rs.spec.maxDeaths() {
			rs.noteBroken(fmt.Sprintf("worker %s shard %d died %d times; giving up on the shard", variant, shard, attempt-recycled))
			return
		}
		start = cur + 1
	}
}

func (rs *runState) noteBroken(msg string) {
	rs.mu.Lock()
	rs.broken = append(rs.broken, msg)
	rs.mu.Unlock()
}

func tailStr(b []byte, n int) string {
	if len(b) > n {
		b = b[len(b)-n:]
	}
	return string(b)
}

func readCur(path string) (int64, string) {
	b, err := os.ReadFile(path)
	if err != nil || len(b) < 16 {
		return -1, ""
	}
	v := binary.LittleEndian.Uint64(b)
	if v == ^uint64(0) {
		return -1, ""
	}
	tag := b[8:]
	if k := bytes.IndexByte(tag, 0); k >= 0 {
		tag = tag[:k]
	}
	return int64(v), string(tag)
}

// absorb reads a worker's JSONL output; it returns true if a summary was present.
func (rs *runState) absorb(path string) bool {
	f, err := os.Open(path)
	if err != nil {
		return false
	}
	defer f.Close()
	sc := bufio.NewScanner(f)
	sc.Buffer(make([]byte, 1<<20), 64<<20)
	got := false
	var last *summary // last checkpoint (used only when the final summary is missing)
	defer func() {
		if !got && last != nil {
			rs.mergeSummary(last)
		}
	}()
	for sc.Scan() {
		line := sc.Bytes()
		var head struct {
			T string `json:"t"`
		}
		if json.Unmarshal(line, &head) != nil {
			continue
		}
		switch head.T {
		case "v":
			var v violation
			if json.Unmarshal(line, &v) == nil {
				rs.addViolation(&v)
			}
		case "ckpt":
			var s summary
			if json.Unmarshal(line, &s) == nil {
				last = &s
			}
		case "sum":
			var s summary
			if json.Unmarshal(line, &s) == nil {
				got = true
				rs.mergeSummary(&s)
			}
		}
	}
	return got
}

func (rs *runState) mergeSummary(sp *summary) {
	s := *sp
	rs.mu.Lock()
	defer rs.mu.Unlock()
	rs.evals += s.Evals
	for k, n := range s.Cells {
		rs.cells[k] += n
	}
	for k, n := range s.Counters {
		if k == "case_space" || strings.HasPrefix(k, "max_") {
			if n > rs.counters[k] {
				rs.counters[k] = n
			}
		} else {
			rs.counters[k] += n
		}
	}
	for _, sm := range s.Samples {
		if len(rs.samples) < 6 {
			rs.samples = append(rs.samples, sm)
		}
	}
	// total counts per key (the worker only writes the first few records)
	for k, n := range s.ViolN {
		if v, ok := rs.viols[s.Prop+"\x00"+k]; ok && n > 5 {
			v.Count += n - 5
		}
	}
}

var reGoroutine = regexp.MustCompile(`(?m)^goroutine \d+ (?:gp=\S+ m=\S+ (?:mp=\S+ )?)?\[([^\]]+)\]:`)

// classifyDeath turns the captured output of a dead child into (kind, site).
func classifyDeath(code int, log []byte) (kind, site string, inconclusive bool) {
	s := string(log)
	site = firstLibFrame(s)
	switch {
	case strings.Contains(s, "all goroutines are asleep - deadlock!"):
		return "deadlock", site, false
	case strings.Contains(s, "stack overflow") || strings.Contains(s, "goroutine stack exceeds"):
		return "stack-overflow", site, false
	case strings.Contains(s, "AddressSanitizer"):
		return "asan", site, false
	case strings.Contains(s, "fatal error: checkptr"):
		return "checkptr", site, false
	case strings.Contains(s, "out of memory") || strings.Contains(s, "cannot allocate memory"):
		return "out-of-memory", site, false
	case strings.Contains(s, "unexpected fault address") || strings.Contains(s, "SIGSEGV") || strings.Contains(s, "SIGBUS"):
		return "fault", site, false
	case strings.Contains(s, "SIGQUIT"):
		// Watchdog.  Decide by the state, not by the clock: if every goroutine
		// that is inside the library is parked on a channel/cond/select and none
		// is runnable or running, nothing can change any more.
		if deadlockState(s) {
			return "deadlock", site, false
		}
		return "watchdog", site, true
	case strings.Contains(s, "panic:") || strings.Contains(s, "fatal error:"):
		return "panic", site, false
	case code == 124 || code == 137:
		return "watchdog", site, true
	case code == -1 && len(strings.TrimSpace(s)) == 0:
		// killed by a signal it did not raise itself and without a word from the Go runtime (which
		// reports every crash, panic and fatal error): an external SIGKILL, e.g. the kernel's
		// out-of-memory killer on a loaded machine.  Not attributable to the library.
		return "killed-externally", site, true
	}
	return "unknown-exit-" + strconv.Itoa(code), site, false
}

func deadlockState(dump string) bool {
	blocks := strings.Split(dump, "\n\n")
	lib := 0
	for _, b := range blocks {
		m := reGoroutine.FindStringSubmatch(b)
		if m == nil {
			continue
		}
		if !strings.Contains(b, "pierrec/lz4") {
			// harness / runtime goroutine: must not be runnable doing harness work
			st := m[1]
			if strings.HasPrefix(st, "running") || strings.HasPrefix(st, "runnable") {
				if strings.Contains(b, "cmd/worker") {
					return false
				}
			}
			continue
		}
		lib++
		st := m[1]
		if i := strings.Index(st, ","); i >= 0 {
			st = st[:i]
		}
		switch st {
		case "chan send", "chan receive", "select", "sync.Cond.Wait", "sync.Mutex.Lock", "semacquire", "chan send (nil chan)", "chan receive (nil chan)", "select (no cases)", "sync.WaitGroup.Wait":
		default:
			return false
		}
	}
	return lib > 0
}

var reFrame = regexp.MustCompile(`(?m)^(github\.com/pierrec/lz4/v4[^\s(]*)\(`)

func firstLibFrame(s string) string {
	m := reFrame.FindStringSubmatch(s)
	if m == nil {
		return "no-library-frame"
	}
	f := m[1]
	if k := strings.LastIndex(f, "/"); k >= 0 {
		f = f[k+1:]
	}
	return f
}

func loadKnown() []known {
	b, err := os.ReadFile(filepath.Join(verifDir, "known_findings.json"))
	if err != nil {
		return nil
	}
	var k []known
	if json.Unmarshal(b, &k) != nil {
		fmt.Fprintln(os.Stderr, "warning: known_findings.json does not parse; ignoring it")
		return nil
	}
	return k
}

func sanitize(s string) string {
	var b strings.Builder
	for _, r := range s {
		switch {
		case r >= 'a' && r <= 'z', r >= 'A' && r <= 'Z', r >= '0' && r <= '9', r == '-', r == '_', r == '.':
			b.WriteRune(r)
		default:
			b.WriteByte('_')
		}
	}
	out := b.String()
	if len(out) > 120 {
		out = out[:120]
	}
	return out
}

func (rs *runState) finish(t0 time.Time) int {
	spec := rs.spec
	kn := loadKnown()
	isKnown := func(prop, key string) *known {
		for i := range kn {
			if kn[i].Property == prop && kn[i].Key == key && kn[i].Status == "open" {
				return &kn[i]
			}
		}
		return nil
	}
	keys := make([]string, 0, len(rs.viols))
	for k := range rs.viols {
		keys = append(keys, k)
	}
	sort.Strings(keys)
	nviol := 0
	nknown := 0
	var lines []string
	repDir := filepath.Join(verifDir, "replays", spec.ID)
	for _, k := range keys {
		v := rs.viols[k]
		if v.Prop != spec.ID {
			// a shared pass observed something about another property: report it as a note only
			fmt.Printf("NOTE: while checking %s: property %s %s: %s\n", spec.ID, v.Prop, v.Key, v.Msg)
			continue
		}
		os.MkdirAll(repDir, 0o755)
		rp := filepath.Join(repDir, sanitize(v.Key)+".json")
		b, _ := json.MarshalIndent(v, "", " ")
		os.WriteFile(rp, b, 0o644)
		if kf := isKnown(v.Prop, v.Key); kf != nil {
			nknown++
			lines = append(lines, fmt.Sprintf("KNOWN-FINDING: property=%s %s [%s; %d occurrence(s); witness %s]", v.Prop, kf.What, v.Key, v.Count, rp))
			continue
		}
		nviol++
		fmt.Printf("  violation %s (%d occurrence(s)): %s\n", v.Key, v.Count, v.Msg)
		lines = append(lines, fmt.Sprintf("VIOLATION property=%s replay=%s", v.Prop, rp))
	}
	distinct := len(rs.cells)
	cov := map[string]interface{}{
		"evaluations":         rs.evals,
		"distinct_nontrivial": distinct,
		"rule":                spec.Rule,
		"samples":             rs.samples,
		"children_died":       rs.deaths,
		"inconclusive":        len(rs.inconcl),
		"variants":            spec.Variants(rs.tier),
		"known_findings_seen": nknown,
	}
	if len(rs.inconcl) > 0 {
		cov["inconclusive_reasons"] = rs.inconcl
	}
	for k, v := range rs.counters {
		cov[k] = v
	}
	if spec.Exhaustive != nil && spec.Exhaustive(rs) {
		cov["exhaustive"] = true
	}
	// a compact view of the cell space: counts per top-level class
	classes := map[string]int{}
	for k := range rs.cells {
		top := k
		if i := strings.Index(k, "/"); i >= 0 {
			top = k[:i]
		}
		classes[top]++
	}
	cov["cell_classes"] = classes
	if len(rs.samples) == 0 {
		cov["samples"] = []string{"(no sample recorded)"}
	}
	ev := map[string]interface{}{
		"property_id": spec.ID,
		"tier":        rs.tier,
		"seed":        int64(rs.seed),
		"level":       spec.Level,
		"coverage":    cov,
		"assumptions": spec.Assumptions,
		"wall_s":      time.Since(t0).Seconds(),
		"violations":  nviol,
	}
	eb, _ := json.MarshalIndent(ev, "", " ")
	if err := os.WriteFile(filepath.Join(verifDir, "evidence", spec.ID+".json"), eb, 0o644); err != nil {
		fmt.Fprintln(os.Stderr, "BROKEN: cannot write evidence:", err)
		return 2
	}
	for _, l := range lines {
		fmt.Println(l)
	}
	for _, m := range rs.inconcl {
		fmt.Println("INCONCLUSIVE:", m)
	}
	fmt.Printf("%s %s seed=%d: %d cases, %d distinct non-trivial cells, %d violation(s), %d known finding(s), %d child death(s), %.1fs\n",
		spec.ID, rs.tier, rs.seed, rs.evals, distinct, nviol, nknown, rs.deaths, time.Since(t0).Seconds())
	if nviol > 0 {
		return 1
	}
	if len(rs.broken) > 0 {
		for _, m := range rs.broken {
			fmt.Fprintln(os.Stderr, "BROKEN:", m)
		}
		return 2
	}
	if rs.evals == 0 || distinct < 2 {
		fmt.Fprintln(os.Stderr, "BROKEN: the run observed nothing (no cases or fewer than 2 non-trivial cells)")
		return 2
	}
	if spec.Require != nil {
		if msg := spec.Require(rs); msg != "" {
			fmt.Fprintln(os.Stderr, "BROKEN: required observation missing:", msg)
			return 2
		}
	}
	return 0
}

// replay re-executes the case recorded in a replay file.
func replay(path string) int {
	b, err := os.ReadFile(path)
	if err != nil {
		fmt.Fprintln(os.Stderr, err)
		return 2
	}
	var v violation
	if err := json.Unmarshal(b, &v); err != nil {
		fmt.Fprintln(os.Stderr, err)
		return 2
	}
	variant := v.Variant
	if variant == "" || variantBuildArgs(variant) == nil {
		variant = "asm"
	}
	if err := buildVariant(variant); err != nil {
		fmt.Fprintln(os.Stderr, "BROKEN:", err)
		return 2
	}
	cmd := exec.Command("timeout", "-s", "QUIT", "600", filepath.Join(verifDir, ".bin", "worker_"+variant),
		"-prop", v.Prop, "-tier", v.Tier, "-seed", strconv.FormatUint(v.Seed, 10), "-only", strconv.FormatInt(v.Case, 10), "-variant", variant, "-v")
	var out bytes.Buffer
	cmd.Stdout, cmd.Stderr = &out, &out
	err = cmd.Run()
	os.Stdout.Write(out.Bytes())
	if err != nil || bytes.Contains(out.Bytes(), []byte(`"t":"v"`)) {
		fmt.Printf("VIOLATION property=%s replay=%s\n", v.Prop, path)
		return 1
	}
	fmt.Println("replay: the recorded case no longer violates the property")
	return 0
}
