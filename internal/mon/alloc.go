package mon

import (
	"runtime"
	"strings"
)

// AllocWatch finds large single allocations made from library code, using the
// runtime's allocation profile at sampling rate 1 (every allocation is
// recorded per call stack).  Unlike RSS or MemStats.Sys it is not confused by
// garbage that merely has not been collected yet, and it also sees
// allocations whose pages are never touched.

// The runtime keeps one profile bucket per (call stack, allocation size): the key must hold
// both, or two buckets of one stack are diffed against each other and produce phantom deltas.
type allocKey struct {
	stack [32]uintptr
	size  int64
}

var DebugAlloc = false

type AllocWatch struct {
	prev map[allocKey][2]int64 // AllocBytes, AllocObjects
	lib  map[allocKey]string   // "" = no library frame
}

// EnableAllocProfile must be called before the workload allocates.
func EnableAllocProfile() { runtime.MemProfileRate = 1 }

func NewAllocWatch() *AllocWatch {
	w := &AllocWatch{prev: map[allocKey][2]int64{}, lib: map[allocKey]string{}}
	w.Delta() // baseline
	return w
}

type BigAlloc struct {
	Site    string
	AvgSize int64
	Objects int64
	Bytes   int64
}

// Delta returns, for every library call stack that allocated since the last
// call, the average object size of those allocations (largest first is not
// guaranteed).  Two GC cycles publish the profile.
func (w *AllocWatch) Delta() []BigAlloc {
	runtime.GC()
	runtime.GC()
	runtime.GC()
	var recs []runtime.MemProfileRecord
	n, _ := runtime.MemProfile(nil, true)
	for {
		recs = make([]runtime.MemProfileRecord, n+64)
		var ok bool
		n, ok = runtime.MemProfile(recs, true)
		if ok {
			recs = recs[:n]
			break
		}
	}
	var out []BigAlloc
	for i := range recs {
		r := &recs[i]
		if r.AllocObjects <= 0 {
			continue
		}
		k := allocKey{r.Stack0, r.AllocBytes / r.AllocObjects}
		p := w.prev[k]
		db, do := r.AllocBytes-p[0], r.AllocObjects-p[1]
		w.prev[k] = [2]int64{r.AllocBytes, r.AllocObjects}
		if do <= 0 || db <= 0 {
			continue
		}
		site, seen := w.lib[k]
		if !seen {
			site = libSite(r.Stack())
			w.lib[k] = site
		}
		if site == "" {
			continue
		}
		if DebugAlloc && db/do > 16<<20 {
			fr := runtime.CallersFrames(r.Stack())
			for {
				f, more := fr.Next()
				println("  ALLOC", db, do, f.Function, f.Line)
				if !more {
					break
				}
			}
		}
		out = append(out, BigAlloc{Site: site, AvgSize: db / do, Objects: do, Bytes: db})
	}
	return out
}

// libSite returns the allocating function if the allocation was made directly
// by library code: the first frame that is not part of the runtime's allocator
// must be a library function ("" otherwise, e.g. a caller-supplied io.Writer
// growing its own buffer underneath Reader.WriteTo).
//
// One exception: a *reservation* (`Grow`) asked for by library code on the caller's
// bytes.Buffer / strings.Builder is the library's decision, not growth with the data
// written; the frames of that reservation are skipped and the caller of Grow decides.
func libSite(pcs []uintptr) string {
	fr := runtime.CallersFrames(pcs)
	inGrow := false
	for {
		f, more := fr.Next()
		switch f.Function {
		case "bytes.growSlice", "bytes.(*Buffer).grow", "strings.(*Builder).grow", "slices.Grow[...]", "bytes.growSlice.func1":
			if more {
				continue
			}
		case "bytes.(*Buffer).Grow", "strings.(*Builder).Grow":
			inGrow = true
			if more {
				continue
			}
		}
		if f.Function != "" && !strings.HasPrefix(f.Function, "runtime.") {
			if !inGrow && (strings.HasPrefix(f.Function, "bytes.") || strings.HasPrefix(f.Function, "strings.")) {
				return "" // the buffer grows underneath Write / ReadFrom: the caller's memory, proportional to the data
			}
			if strings.Contains(f.Function, "pierrec/lz4") {
				fn := f.Function
				if k := strings.LastIndex(fn, "/"); k >= 0 {
					fn = fn[k+1:]
				}
				return fn
			}
			return ""
		}
		if !more {
			return ""
		}
	}
}
