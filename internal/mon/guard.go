// Package mon holds the runtime monitors: guard-page arenas, canaries, the
// quarantining block pool, the scheduling perturbation and event log.
package mon

import (
	"fmt"
	"runtime/debug"
	"syscall"
	"unsafe"
)

const pageSize = 4096

// Arena is a private mapping  [guard page][data pages][guard page].  Buffers
// are carved so that they end exactly at the trailing guard page (End) or
// start right after the leading one (Start).  An access outside the buffer on
// the adjacent side faults; with debug.SetPanicOnFault the fault becomes a
// panic carrying the address.
type Arena struct {
	Name string
	all  []byte
	data []byte // the accessible pages
	ro   bool
}

func NewArena(name string, capacity int) *Arena {
	pages := (capacity + pageSize - 1) / pageSize
	if pages == 0 {
		pages = 1
	}
	total := (pages + 2) * pageSize
	all, err := syscall.Mmap(-1, 0, total, syscall.PROT_READ|syscall.PROT_WRITE, syscall.MAP_ANON|syscall.MAP_PRIVATE)
	if err != nil {
		panic(fmt.Sprintf("mon: mmap %d: %v", total, err))
	}
	if err := syscall.Mprotect(all[:pageSize], syscall.PROT_NONE); err != nil {
		panic(err)
	}
	if err := syscall.Mprotect(all[total-pageSize:], syscall.PROT_NONE); err != nil {
		panic(err)
	}
	return &Arena{Name: name, all: all, data: all[pageSize : total-pageSize : total-pageSize]}
}

func (a *Arena) Cap() int { return len(a.data) }

func (a *Arena) Free() {
	if a.all != nil {
		_ = syscall.Munmap(a.all)
		a.all, a.data = nil, nil
	}
}

// End returns a buffer of n bytes whose last byte is the last byte before the
// trailing guard page; cap == len.  content (if not nil) is copied in.
func (a *Arena) End(n int, content []byte) []byte {
	a.SetReadOnly(false)
	c := len(a.data)
	b := a.data[c-n : c : c]
	copy(b, content)
	return b
}

// Start returns a buffer of n bytes whose first byte is the first byte after
// the leading guard page; cap == len.
func (a *Arena) Start(n int, content []byte) []byte {
	a.SetReadOnly(false)
	b := a.data[0:n:n]
	copy(b, content)
	return b
}

// SetReadOnly makes the data pages read-only (writes fault) or writable again.
func (a *Arena) SetReadOnly(ro bool) {
	if a.ro == ro {
		return
	}
	prot := syscall.PROT_READ | syscall.PROT_WRITE
	if ro {
		prot = syscall.PROT_READ
	}
	if err := syscall.Mprotect(a.data[:cap(a.data)], prot); err != nil {
		panic(err)
	}
	a.ro = ro
}

// Where describes an address relative to the arena.
func (a *Arena) Where(addr uintptr) (string, bool) {
	base := uintptr(unsafe.Pointer(&a.all[0]))
	end := base + uintptr(len(a.all))
	if addr < base || addr >= end {
		return "", false
	}
	switch {
	case addr < base+pageSize:
		return a.Name + ":guard-before", true
	case addr >= end-pageSize:
		return a.Name + ":guard-after", true
	default:
		return a.Name + ":data(read-only)", true
	}
}

// Fault is what CallGuarded reports when the call faulted or panicked.
type Fault struct {
	Panicked bool
	IsFault  bool
	Addr     uintptr
	Where    string // which arena / side
	Msg      string
}

// CallGuarded runs fn with faults turned into panics and attributes a fault
// address to one of the arenas.
func CallGuarded(fn func(), arenas ...*Arena) (f Fault) {
	old := debug.SetPanicOnFault(true)
	defer debug.SetPanicOnFault(old)
	defer func() {
		if r := recover(); r != nil {
			f.Panicked = true
			f.Msg = fmt.Sprint(r)
			if ae, ok := r.(interface{ Addr() uintptr }); ok {
				f.IsFault = true
				f.Addr = ae.Addr()
				f.Where = "elsewhere"
				for _, a := range arenas {
					if a == nil {
						continue
					}
					if w, ok := a.Where(f.Addr); ok {
						f.Where = w
						break
					}
				}
			}
		}
	}()
	fn()
	return
}

// Canary fills b with a pattern derived from seed.
func CanaryFill(b []byte, seed byte) {
	for i := range b {
		b[i] = seed ^ byte(i*131>>3) ^ 0x5A
	}
}

// CanaryCheck returns the first index where b no longer holds the pattern, or -1.
func CanaryCheck(b []byte, seed byte) int {
	for i := range b {
		if b[i] != seed^byte(i*131>>3)^0x5A {
			return i
		}
	}
	return -1
}

// CanaryCheckRange checks b[lo:hi] against the pattern written by CanaryFill(b, seed);
// it returns the first differing index relative to lo, or -1.
func CanaryCheckRange(b []byte, seed byte, lo, hi int) int {
	for i := lo; i < hi; i++ {
		if b[i] != seed^byte(i*131>>3)^0x5A {
			return i - lo
		}
	}
	return -1
}
