package mon

import (
	"fmt"
	"runtime"
	"sync"
	"sync/atomic"
	"time"
	"unsafe"
)

// Monitors behind the library's verif hooks: scheduling perturbation at the
// pipeline's yield sites, a quarantining / poisoning block pool and an event
// log for ordering and exactly-once checks.  All state is guarded by mutexes
// or atomics so that the monitor itself cannot be the race.

// NumSites: sites 0..9 lie between critical sections of the concurrent pipelines and may be
// perturbed; sites 10 and 11 (one per block in the sequential Writer / Reader) only count steps.
const (
	NumSites      = 10
	NumStepSites  = 12
	SiteWSeqBlock = 10
	SiteRSeqBlock = 11
)

// ---- perturbation --------------------------------------------------------------

const (
	PerturbOff    = iota
	PerturbJitter // every site: nothing / Gosched x k / short sleep, seeded
	PerturbSlow   // one site is slowed for the whole run (PCT-like), others jitter lightly
)

var (
	perturbMode atomic.Int32
	perturbSeed atomic.Uint64
	perturbSlow atomic.Int32
	perturbCtr  atomic.Uint64
	SiteHits    [NumStepSites]atomic.Int64
	steps       atomic.Int64
)

func SetPerturbation(mode int, seed uint64, slowSite int) {
	perturbMode.Store(int32(mode))
	perturbSeed.Store(seed)
	perturbSlow.Store(int32(slowSite))
	perturbCtr.Store(0)
}

func mix(x uint64) uint64 {
	x += 0x9E3779B97F4A7C15
	x = (x ^ (x >> 30)) * 0xBF58476D1CE4E5B9
	x = (x ^ (x >> 27)) * 0x94D049BB133111EB
	return x ^ (x >> 31)
}

// Steps counts the hook sites passed since the last StepsReset: a logical clock of
// library progress used by the step-bound (runaway loop) monitor.
const stepsUnperturbed = 1 << 20

func StepsReset()  { steps.Store(0) }
func Steps() int64 { return steps.Load() }

// Yield is installed as the library's yield hook.
func Yield(site int) {
	if site >= 0 && site < NumStepSites {
		SiteHits[site].Add(1)
	}
	mode := perturbMode.Load()
	if n := steps.Add(1); mode == PerturbOff || n > stepsUnperturbed || site >= NumSites {
		// a call that has already passed a million hook sites is not slowed down any further:
		// if it is a runaway loop the step bound must be reached quickly
		return
	}
	r := mix(perturbSeed.Load() ^ perturbCtr.Add(1)*0x9E3779B97F4A7C15 ^ uint64(site)<<56)
	if mode == PerturbSlow && int32(site) == perturbSlow.Load() {
		time.Sleep(time.Duration(50+r%450) * time.Microsecond)
		return
	}
	switch r % 8 {
	case 0, 1, 2:
	case 3, 4:
		runtime.Gosched()
	case 5:
		for k := uint64(0); k < 1+(r>>8)%6; k++ {
			runtime.Gosched()
		}
	case 6:
		time.Sleep(time.Duration(1+(r>>8)%40) * time.Microsecond)
	default:
		if mode == PerturbJitter {
			time.Sleep(time.Duration(1+(r>>8)%500) * time.Microsecond)
		}
	}
}

// ---- event log -----------------------------------------------------------------

type Ev struct {
	Kind int
	ID   int // ordinal of the channel (first appearance order)
}

var (
	evMu  sync.Mutex
	evLog []Ev
	evIDs map[interface{}]int
	evOn  atomic.Bool
)

func EventsStart() {
	evMu.Lock()
	evLog = evLog[:0]
	evIDs = map[interface{}]int{}
	evMu.Unlock()
	evOn.Store(true)
}

func EventsStop() []Ev {
	evOn.Store(false)
	evMu.Lock()
	defer evMu.Unlock()
	out := append([]Ev(nil), evLog...)
	return out
}

// Event is installed as the library's event hook.
func Event(kind int, id interface{}) {
	if !evOn.Load() {
		return
	}
	evMu.Lock()
	n, ok := evIDs[id]
	if !ok {
		n = len(evIDs)
		evIDs[id] = n
	}
	evLog = append(evLog, Ev{kind, n})
	evMu.Unlock()
}

// ---- quarantining pool ---------------------------------------------------------

const poison = 0xDB

type PoolReport struct {
	Gets, Puts       int64
	PoisonChecks     int64
	WriteAfterFree   []string // descriptions
	DoubleRelease    []string
	ForeignPuts      int64
	ReusedQuarantine int64
}

var (
	poolMu   sync.Mutex
	poolOn   bool
	poolLIFO bool
	poolFree map[int][][]byte     // by capacity
	poolSet  map[uintptr]struct{} // base addresses currently in quarantine
	poolRep  PoolReport
	poolKeep [][]byte // keeps every buffer we ever handed out alive (no address reuse by the GC)
)

func capForIndex(idx int) int {
	switch idx {
	case 4:
		return 64 << 10
	case 5:
		return 256 << 10
	case 6:
		return 1 << 20
	case 7:
		return 4 << 20
	case 3:
		return 8 << 20
	}
	return 0
}

func PoolStart(lifo bool) {
	poolMu.Lock()
	poolOn = true
	poolLIFO = lifo
	poolFree = map[int][][]byte{}
	poolSet = map[uintptr]struct{}{}
	poolRep = PoolReport{}
	poolKeep = nil
	poolMu.Unlock()
}

func PoolStop() PoolReport {
	poolMu.Lock()
	defer poolMu.Unlock()
	poolOn = false
	// final integrity check of everything still quarantined
	for _, l := range poolFree {
		for _, b := range l {
			checkPoison(b, "at shutdown")
		}
	}
	r := poolRep
	poolFree, poolSet, poolKeep = nil, nil, nil
	return r
}

func checkPoison(b []byte, when string) {
	poolRep.PoisonChecks++
	for i, v := range b {
		if v != poison {
			if len(poolRep.WriteAfterFree) < 5 {
				poolRep.WriteAfterFree = append(poolRep.WriteAfterFree, fmt.Sprintf("buffer of %d bytes was modified at offset %d while released to the pool (%s)", len(b), i, when))
			}
			return
		}
	}
}

// PoolGet is installed as the library's pool-get hook.
func PoolGet(idx int) []byte {
	poolMu.Lock()
	defer poolMu.Unlock()
	if !poolOn {
		return nil
	}
	c := capForIndex(idx)
	if c == 0 {
		return nil
	}
	poolRep.Gets++
	l := poolFree[c]
	if len(l) > 0 {
		var b []byte
		if poolLIFO {
			b = l[len(l)-1]
			poolFree[c] = l[:len(l)-1]
		} else {
			b = l[0]
			poolFree[c] = l[1:]
		}
		delete(poolSet, uintptr(unsafe.Pointer(&b[0])))
		checkPoison(b, "found when handed out again")
		poolRep.ReusedQuarantine++
		return b
	}
	b := make([]byte, c)
	poolKeep = append(poolKeep, b)
	return b
}

// PoolPut is installed as the library's pool-put hook.
func PoolPut(buf []byte) bool {
	poolMu.Lock()
	defer poolMu.Unlock()
	if !poolOn {
		return false
	}
	c := cap(buf)
	switch c {
	case 64 << 10, 256 << 10, 1 << 20, 4 << 20, 8 << 20:
	default:
		poolRep.ForeignPuts++
		return true // the library ignores such buffers as well
	}
	b := buf[:c]
	base := uintptr(unsafe.Pointer(&b[0]))
	poolRep.Puts++
	if _, dup := poolSet[base]; dup {
		if len(poolRep.DoubleRelease) < 5 {
			poolRep.DoubleRelease = append(poolRep.DoubleRelease, fmt.Sprintf("buffer of %d bytes released to the pool twice", c))
		}
		return true
	}
	for i := range b {
		b[i] = poison
	}
	poolSet[base] = struct{}{}
	poolFree[c] = append(poolFree[c], b)
	return true
}
