// Package prng is a tiny deterministic generator (splitmix64) so that every
// case is a pure function of (seed, property, index).
package prng

type Rng struct{ s uint64 }

func New(seed uint64) *Rng { return &Rng{s: seed} }

// Derive makes an independent stream from a seed and a list of labels.
func Derive(seed uint64, labels ...uint64) *Rng {
	r := &Rng{s: seed ^ 0x6A09E667F3BCC909}
	for _, l := range labels {
		r.s ^= l * 0x9E3779B97F4A7C15
		r.Next()
	}
	return r
}

func Hash(s string) uint64 {
	var h uint64 = 1469598103934665603
	for i := 0; i < len(s); i++ {
		h ^= uint64(s[i])
		h *= 1099511628211
	}
	return h
}

func (r *Rng) Next() uint64 {
	r.s += 0x9E3779B97F4A7C15
	z := r.s
	z = (z ^ (z >> 30)) * 0xBF58476D1CE4E5B9
	z = (z ^ (z >> 27)) * 0x94D049BB133111EB
	return z ^ (z >> 31)
}

// N returns a value in [0,k).
func (r *Rng) N(k int) int {
	if k <= 0 {
		return 0
	}
	return int(r.Next() % uint64(k))
}

// Range returns a value in [lo,hi].
func (r *Rng) Range(lo, hi int) int {
	if hi <= lo {
		return lo
	}
	return lo + r.N(hi-lo+1)
}

func (r *Rng) Bool() bool { return r.Next()&1 == 1 }

func (r *Rng) Pick(v ...int) int { return v[r.N(len(v))] }

func (r *Rng) Fill(b []byte) {
	i := 0
	for ; i+8 <= len(b); i += 8 {
		x := r.Next()
		b[i], b[i+1], b[i+2], b[i+3] = byte(x), byte(x>>8), byte(x>>16), byte(x>>24)
		b[i+4], b[i+5], b[i+6], b[i+7] = byte(x>>32), byte(x>>40), byte(x>>48), byte(x>>56)
	}
	if i < len(b) {
		x := r.Next()
		for ; i < len(b); i++ {
			b[i] = byte(x)
			x >>= 8
		}
	}
}

func (r *Rng) Bytes(n int) []byte {
	b := make([]byte, n)
	r.Fill(b)
	return b
}

// Perm returns a permutation of 0..n-1.
func (r *Rng) Perm(n int) []int {
	p := make([]int, n)
	for i := range p {
		p[i] = i
	}
	for i := n - 1; i > 0; i-- {
		j := r.N(i + 1)
		p[i], p[j] = p[j], p[i]
	}
	return p
}
