package gen

import (
	"fmt"
	"io"

	"verif/internal/prng"
)

// BudgetExceeded is the sentinel a budgeted sink/source panics with when the
// code under test keeps calling it beyond any plausible number of calls
// (runaway loop).  The worker recovers it and classifies the case.
type BudgetExceeded struct{ What string }

func (b BudgetExceeded) Error() string { return "budget exceeded: " + b.What }

// InjErr is an injected I/O failure, identified by the call index it was
// produced at.
type InjErr struct {
	K    int
	Wrap error // the error it wraps, if any (errors.Is(e, Wrap) is then true)
}

func (e *InjErr) Error() string {
	if e.Wrap != nil {
		return fmt.Sprintf("injected I/O failure at call %d: %v", e.K, e.Wrap)
	}
	return fmt.Sprintf("injected I/O failure at call %d", e.K)
}
func (e *InjErr) Unwrap() error { return e.Wrap }

// Error kinds of an injected source failure: what the error value looks like to the caller.
const (
	ErrPlain             = iota // an error of its own type
	ErrWrapsEOF                 // wraps io.EOF (errors.Is(err, io.EOF) holds, err != io.EOF)
	ErrWrapsUnexpected          // wraps io.ErrUnexpectedEOF
	ErrBareUnexpectedEOF        // the bare sentinel io.ErrUnexpectedEOF, as a truncated upstream (gzip, http body) returns it
	NumErrKinds
)

// Sink is an io.Writer that records everything, counts calls and can fail.
type Sink struct {
	Buf       []byte
	Calls     int
	FailFrom  int  // 1-based call index from which every call fails (0: never)
	Transient bool // only call FailFrom fails
	Partial   bool // a failing call first accepts a proper prefix
	Budget    int  // max calls (0: 1<<22)
	MaxBytes  int  // max bytes (0: 1<<31)
	Errs      []*InjErr
	CallSizes []int // recorded when KeepSizes
	KeepSizes bool
	Discard   bool // do not keep the bytes (large streams)
	Total     int64
	OnWrite   func(call int) // hook (e.g. yield) before accepting
	Overrun   bool           // the call budget was exceeded
}

func (s *Sink) Write(p []byte) (int, error) {
	s.Calls++
	if s.OnWrite != nil {
		s.OnWrite(s.Calls)
	}
	b := s.Budget
	if b == 0 {
		b = 1 << 22
	}
	if s.Calls > b {
		// The sink may be called from a goroutine of the code under test, where a
		// panic cannot be recovered by the harness: first refuse politely (the
		// harness checks Overrun after the call), panic only if that is ignored.
		s.Overrun = true
		if s.Calls > b+1000 {
			panic(BudgetExceeded{fmt.Sprintf("sink called %d times", s.Calls)})
		}
		return 0, BudgetExceeded{fmt.Sprintf("sink called %d times", s.Calls)}
	}
	mb := s.MaxBytes
	if mb == 0 {
		mb = 1 << 31
	}
	if s.Total+int64(len(p)) > int64(mb) {
		panic(BudgetExceeded{fmt.Sprintf("sink received more than %d bytes", mb)})
	}
	if s.KeepSizes {
		s.CallSizes = append(s.CallSizes, len(p))
	}
	fail := s.FailFrom > 0 && (s.Calls == s.FailFrom || (!s.Transient && s.Calls > s.FailFrom))
	if fail {
		e := &InjErr{K: s.Calls}
		s.Errs = append(s.Errs, e)
		n := 0
		// only the first failing call accepts a prefix (a disk that just filled up);
		// afterwards nothing fits any more
		if s.Partial && len(p) > 1 && s.Calls == s.FailFrom {
			n = len(p) / 2
			s.keep(p[:n])
		}
		return n, e
	}
	s.keep(p)
	return len(p), nil
}

func (s *Sink) keep(p []byte) {
	s.Total += int64(len(p))
	if !s.Discard {
		s.Buf = append(s.Buf, p...)
	}
}

// Read modes of Source.
const (
	ReadPlain     = iota // as much as fits
	ReadOneByte          // one byte per call
	ReadRandom           // random chunk sizes
	ReadWithEOF          // the last chunk is returned together with io.EOF
	ReadZeroMixed        // (0, nil) reads interleaved (at most one in a row)
	NumReadModes
)

// Source is an io.Reader over a byte slice with fragmentation and fault
// injection; it counts calls and bytes handed out.
type Source struct {
	Data     []byte
	Pos      int
	Calls    int
	Mode     int
	G        *prng.Rng
	FailAt   int  // 1-based call index that fails (0: never); stays failed afterwards unless FailOnce
	FailOnce bool // only call FailAt fails (a transient error); later calls carry on
	FailData bool // the failing call also returns some bytes
	ErrKind  int  // what the injected error looks like (ErrPlain ...)
	Bare     int  // number of bare io.ErrUnexpectedEOF failures returned (ErrBareUnexpectedEOF)
	Budget   int
	EOFs     int
	Errs     []*InjErr
	lastZero bool
	MaxChunk int
}

func (s *Source) Read(p []byte) (int, error) {
	s.Calls++
	b := s.Budget
	if b == 0 {
		b = 1 << 22
	}
	if s.Calls > b {
		panic(BudgetExceeded{fmt.Sprintf("source read %d times", s.Calls)})
	}
	if s.FailAt > 0 && (s.Calls == s.FailAt || (s.Calls > s.FailAt && !s.FailOnce)) {
		e := &InjErr{K: s.Calls}
		switch s.ErrKind {
		case ErrWrapsEOF:
			e.Wrap = io.EOF
		case ErrWrapsUnexpected:
			e.Wrap = io.ErrUnexpectedEOF
		}
		s.Errs = append(s.Errs, e)
		var ret error = e
		if s.ErrKind == ErrBareUnexpectedEOF {
			s.Bare++
			ret = io.ErrUnexpectedEOF
		}
		n := 0
		if s.FailData && s.Calls == s.FailAt && len(p) > 0 && s.Pos < len(s.Data) {
			n = 1 + (len(s.Data)-s.Pos-1)/2
			if n > len(p) {
				n = len(p)
			}
			copy(p, s.Data[s.Pos:s.Pos+n])
			s.Pos += n
		}
		return n, ret
	}
	if s.Pos >= len(s.Data) {
		s.EOFs++
		if s.EOFs > 1000 {
			panic(BudgetExceeded{"source returned EOF more than 1000 times"})
		}
		return 0, io.EOF
	}
	if len(p) == 0 {
		return 0, nil
	}
	rem := len(s.Data) - s.Pos
	n := len(p)
	if n > rem {
		n = rem
	}
	switch s.Mode {
	case ReadOneByte:
		n = 1
	case ReadRandom:
		k := 1 + s.G.N(n)
		if s.G.N(3) == 0 {
			k = 1 + s.G.N(minI(n, 17))
		}
		n = k
	case ReadZeroMixed:
		if !s.lastZero && s.G.N(3) == 0 {
			s.lastZero = true
			return 0, nil
		}
		s.lastZero = false
		n = 1 + s.G.N(n)
	}
	if s.MaxChunk > 0 && n > s.MaxChunk {
		n = s.MaxChunk
	}
	copy(p, s.Data[s.Pos:s.Pos+n])
	s.Pos += n
	if s.Mode == ReadWithEOF && s.Pos == len(s.Data) {
		s.EOFs++
		return n, io.EOF
	}
	return n, nil
}

// Partition cuts n bytes into write sizes of the given style.
func Partition(g *prng.Rng, n, style, blockSize int) []int {
	var parts []int
	rem := n
	for rem > 0 {
		var k int
		switch style {
		case 0: // one write
			k = rem
		case 1: // random sizes around everything
			k = g.Pick(1, 2, 7, 100, 4096, 65535, 65536, 65537, blockSize-1, blockSize, blockSize+1, 2*blockSize+3, 1+g.N(rem))
		case 2: // aligned to the block size +- 1
			k = blockSize + g.Pick(-1, 0, 1)
		case 3: // tiny writes (small inputs only)
			if n <= 70000 {
				k = 1 + g.N(3)
			} else {
				k = 1 + g.N(2*blockSize)
			}
		default: // large random
			k = 1 + g.N(2*blockSize)
		}
		if k < 1 {
			k = 1
		}
		if k > rem {
			k = rem
		}
		parts = append(parts, k)
		rem -= k
	}
	return parts
}

// SeekableSource is a Source that also implements io.Seeker (like *os.File or
// *bytes.Reader, which is what callers usually hand to a Reader).
type SeekableSource struct{ *Source }

func (s SeekableSource) Seek(offset int64, whence int) (int64, error) {
	var abs int64
	switch whence {
	case io.SeekStart:
		abs = offset
	case io.SeekCurrent:
		abs = int64(s.Pos) + offset
	case io.SeekEnd:
		abs = int64(len(s.Data)) + offset
	default:
		return 0, fmt.Errorf("gen: invalid whence")
	}
	if abs < 0 {
		return 0, fmt.Errorf("gen: negative position")
	}
	if abs > 1<<40 {
		abs = 1 << 40
	}
	s.Pos = int(abs) // seeking past the end is allowed, as for files
	return abs, nil
}
