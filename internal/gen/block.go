package gen

import (
	"verif/internal/prng"
)

// Block grammar: sequences from (literal-length class x offset class x
// match-length class x distance-to-end class), with or without dictionary.

var (
	GLit   = []int{0, 1, 2, 3, 7, 13, 14, 15, 16, 17, 30, 31, 32, 33, 47, 48, 49, 269, 270, 271, 15 + 255*2}
	GMatch = []int{4, 5, 8, 15, 16, 17, 18, 19, 20, 33, 272, 273, 274, 19 + 255*2}
	GTail  = []int{-1, 0, 1, 4, 5, 11, 12, 15, 16, 17, 18, 31, 32, 33, 47, 48, 49} // -1: block ends right after the match
	GDict  = []int{0, 1, 5, 20, 100, 65535, 65536, 70000}
)

// Offset classes, resolved against the output position di and the dictionary.
const (
	OffZero = iota
	Off1
	Off2
	Off3
	Off4
	Off7
	Off8
	Off15
	Off16
	Off17
	Off18
	OffDi         // first byte of the output
	OffDiPlus1    // last byte of the dictionary
	OffDictStart  // first byte of the dictionary
	OffBeforeDict // one byte before the dictionary: invalid
	Off65535
	OffRandomValid
	NumOffClasses
)

var OffClassNames = []string{"0", "1", "2", "3", "4", "7", "8", "15", "16", "17", "18", "di", "di+1", "di+dict", "di+dict+1", "65535", "rand"}

// ResolveOff turns an offset class into a number (may be invalid on purpose).
func ResolveOff(g *prng.Rng, class, di, dictLen int) int {
	var off int
	switch class {
	case OffZero:
		off = 0
	case Off1:
		off = 1
	case Off2:
		off = 2
	case Off3:
		off = 3
	case Off4:
		off = 4
	case Off7:
		off = 7
	case Off8:
		off = 8
	case Off15:
		off = 15
	case Off16:
		off = 16
	case Off17:
		off = 17
	case Off18:
		off = 18
	case OffDi:
		off = di
	case OffDiPlus1:
		off = di + 1
	case OffDictStart:
		off = di + dictLen
	case OffBeforeDict:
		off = di + dictLen + 1
	case Off65535:
		off = 65535
	default:
		if di+dictLen > 0 {
			off = 1 + g.N(di+dictLen)
		} else {
			off = 1
		}
	}
	if off > 65535 {
		off = 65535
	}
	return off
}

func putLen(b []byte, x int) []byte {
	for x >= 255 {
		b = append(b, 255)
		x -= 255
	}
	return append(b, byte(x))
}

// AppendSeq appends one sequence; mlen == 0 means "final literals" (match nibble 0).
func AppendSeq(b []byte, g *prng.Rng, ll, off, mlen int) []byte {
	tok := 0
	if ll >= 15 {
		tok = 0xF0
	} else {
		tok = ll << 4
	}
	if mlen > 0 {
		if mlen-4 >= 15 {
			tok |= 15
		} else {
			tok |= mlen - 4
		}
	}
	b = append(b, byte(tok))
	if ll >= 15 {
		b = putLen(b, ll-15)
	}
	for k := 0; k < ll; k++ {
		b = append(b, byte(g.Next()))
	}
	if mlen > 0 {
		b = append(b, byte(off), byte(off>>8))
		if mlen-4 >= 15 {
			b = putLen(b, mlen-4-15)
		}
	}
	return b
}

// Structured builds the block for one point of the class product:
//
//	[optional lead sequence] [sequence under test: lit lc, offset class oc, match mc] [tail]
//
// lead > 0 gives the output some history first (a literal run of `lead` bytes and a short match).
func Structured(g *prng.Rng, lead, lc, oc, mc, tail, dictLen int) []byte {
	var b []byte
	di := 0
	if lead > 0 {
		b = AppendSeq(b, g, lead, 1+g.N(lead+dictLen), 4+g.N(6))
		// the match length of the lead sequence is in the token / extension we just wrote
		di = lead + matchLenOfLast(b)
	}
	off := ResolveOff(g, oc, di+lc, dictLen)
	b = AppendSeq(b, g, lc, off, mc)
	if tail >= 0 {
		b = AppendSeq(b, g, tail, 0, 0)
	}
	return b
}

// matchLenOfLast is only used for lead sequences (match < 19: no extension bytes).
func matchLenOfLast(b []byte) int {
	// lead sequences are written with literal length `lead` and match 4..9, so the
	// token is the first byte of b.
	return int(b[0]&15) + 4
}

// Random builds a block of 1..7 random sequences (classes drawn at random).
func RandomBlock(g *prng.Rng, dictLen int) []byte {
	var b []byte
	outLen := 0
	nseq := 1 + g.N(7)
	for s := 0; s < nseq; s++ {
		ll := GLit[g.N(len(GLit))]
		last := s == nseq-1 && g.N(4) != 0
		if last {
			b = AppendSeq(b, g, ll, 0, 0)
			break
		}
		ml := GMatch[g.N(len(GMatch))]
		off := ResolveOff(g, g.N(NumOffClasses), outLen+ll, dictLen)
		if g.N(3) == 0 {
			off = ResolveOff(g, OffRandomValid, outLen+ll, dictLen)
		}
		b = AppendSeq(b, g, ll, off, ml)
		outLen += ll + ml
	}
	return b
}

// TokenBiased returns random bytes whose first byte is an "interesting" token.
func TokenBiased(g *prng.Rng) []byte {
	n := g.Pick(1, 2, 3, 5, 16, 17, 18, 19, 20, 33, 34, 40, 100, 300)
	b := g.Bytes(n)
	if g.Bool() {
		b[0] = byte(g.Pick(0x00, 0x10, 0x1E, 0x1F, 0xE0, 0xEE, 0xEF, 0xF0, 0x0F, 0xFF, 0x40, 0x44, 0x11))
	}
	if n > 4 && g.N(3) == 0 {
		// small offsets make matches plausible
		b[2+g.N(n-3)] = 0
	}
	return b
}

// Mutate applies one mutation to a copy of b.
func Mutate(g *prng.Rng, b []byte) ([]byte, string) {
	m := append([]byte(nil), b...)
	if len(m) == 0 {
		return []byte{byte(g.Next())}, "grow"
	}
	switch g.N(7) {
	case 0:
		return m[:g.N(len(m))], "truncate"
	case 1:
		m[g.N(len(m))] ^= 1 << uint(g.N(8))
		return m, "bitflip"
	case 2:
		return append(m, byte(g.Pick(0, 0x10, 0xFF, 0x0F, 0x50))), "append"
	case 3:
		m[g.N(len(m))] = byte(g.Pick(0, 1, 0xFF, 0xF0, 0x0F))
		return m, "substitute"
	case 4:
		k := g.N(len(m))
		return append(m[:k], m[k+1:]...), "delete"
	case 5:
		k := g.N(len(m) + 1)
		m = append(m, 0)
		copy(m[k+1:], m[k:])
		m[k] = byte(g.Next())
		return m, "insert"
	default:
		// truncate near the end (inside the last sequence)
		k := 1 + g.N(minI(20, len(m)))
		return m[:len(m)-k], "truncate-tail"
	}
}
