// Package gen holds the seeded generators: data classes for the compressors,
// the block grammar and mutators for the decoders, frame mutators and the
// I/O shims.  Everything is a pure function of the Rng handed in.
package gen

import (
	"fmt"
	"os"
	"path/filepath"
	"sync"

	"verif/internal/prng"
)

var (
	textOnce sync.Once
	texts    [][]byte
)

// LoadTexts reads the non-empty plaintext files of the repository's testdata.
func LoadTexts(repo string) [][]byte {
	textOnce.Do(func() {
		for _, n := range []string{"Mark.Twain-Tom.Sawyer.txt", "pg1661.txt", "e.txt", "gettysburg.txt", "repeat.txt", "pg_control.tar"} {
			b, err := os.ReadFile(filepath.Join(repo, "testdata", n))
			if err == nil && len(b) > 0 {
				texts = append(texts, b)
			}
		}
		if len(texts) == 0 {
			// fall back to a synthetic "text" so that the class still exists
			g := prng.New(12345)
			words := []string{"the ", "quick ", "brown ", "fox ", "jumps ", "over ", "lazy ", "dog ", "and ", "lz4 ", "block ", "frame "}
			var b []byte
			for len(b) < 400000 {
				b = append(b, words[g.N(len(words))]...)
			}
			texts = append(texts, b)
		}
	})
	return texts
}

// AB returns the idx-th string over {a,b}: all strings of length 0, then 1, ...
// Count of strings with length <= L is 2^(L+1)-1.
func AB(idx int) []byte {
	l := 0
	for idx >= 1<<uint(l) {
		idx -= 1 << uint(l)
		l++
	}
	b := make([]byte, l)
	for i := range b {
		if idx>>uint(i)&1 == 1 {
			b[i] = 'b'
		} else {
			b[i] = 'a'
		}
	}
	return b
}

// ABCount is the number of strings over {a,b} of length <= maxLen.
func ABCount(maxLen int) int { return 1<<uint(maxLen+1) - 1 }

// Small returns one of 6 content kinds for a given tiny length.
func Small(g *prng.Rng, n, kind int) []byte {
	b := make([]byte, n)
	switch kind {
	case 0: // zeros
	case 1: // random
		g.Fill(b)
	case 2: // period 2
		for i := range b {
			b[i] = byte('x' + i%2)
		}
	case 3: // period 4
		for i := range b {
			b[i] = "abcd"[i%4]
		}
	case 4: // first half random, second half a copy
		g.Fill(b)
		h := n / 2
		copy(b[n-h:], b[:h])
	default: // alphabet of 2
		for i := range b {
			b[i] = byte('0' + g.N(2))
		}
	}
	return b
}

// SizeClass picks a length from the ladder of interesting sizes.
func SizeClass(g *prng.Rng, max int) int {
	ladder := []int{0, 1, 4, 11, 12, 13, 14, 15, 16, 17, 18, 19, 20, 31, 32, 33, 63, 64, 65, 100, 255, 256, 270, 1000, 4095, 4096, 4097,
		65534, 65535, 65536, 65537, 65550, 70000, 131071, 131072, 131073, 200000, 262143, 262144, 262145, 1<<20 - 1, 1 << 20, 1<<20 + 1, 4<<20 - 1, 4 << 20}
	for tries := 0; tries < 8; tries++ {
		n := ladder[g.N(len(ladder))]
		if n <= max {
			return n
		}
	}
	return g.N(max + 1)
}

// Periodic data with period p.
func Periodic(g *prng.Rng, n, p int) []byte {
	if p < 1 {
		p = 1
	}
	unit := g.Bytes(p)
	b := make([]byte, n)
	for i := range b {
		b[i] = unit[i%p]
	}
	return b
}

var Periods = []int{1, 2, 3, 4, 5, 6, 7, 8, 9, 10, 11, 12, 13, 14, 15, 16, 17, 18, 19, 20, 255, 256, 4095, 65534, 65535, 65536, 65537}

// LowEntropy: random over an alphabet of k symbols.
func LowEntropy(g *prng.Rng, n, k int) []byte {
	b := make([]byte, n)
	for i := range b {
		b[i] = byte('A' + g.N(k))
	}
	return b
}

// Text returns a slice of a testdata plaintext (repeated if too short).
func Text(g *prng.Rng, repo string, n int) []byte {
	ts := LoadTexts(repo)
	t := ts[g.N(len(ts))]
	if n <= len(t) {
		o := g.N(len(t) - n + 1)
		return append([]byte(nil), t[o:o+n]...)
	}
	b := make([]byte, 0, n)
	for len(b) < n {
		k := n - len(b)
		if k > len(t) {
			k = len(t)
		}
		b = append(b, t[:k]...)
	}
	return b
}

var (
	LitClasses   = []int{0, 1, 2, 3, 13, 14, 15, 16, 17, 40, 268, 269, 270, 271, 272, 15 + 255*2 - 1, 15 + 255*2, 15 + 255*2 + 1, 1000,
		// long runs: the number of length bytes (l-15)/255+1 drifts away from estimates such as l/256
		4094, 4095, 4096, 4350, 4351, 15 + 255*32, 20000, 66000, 140000}
	MatchClasses = []int{4, 5, 6, 7, 8, 17, 18, 19, 20, 21, 33, 272, 273, 274, 275, 19 + 255*2 - 1, 19 + 255*2, 19 + 255*2 + 1, 5000}
	OffClasses   = []int{1, 2, 3, 4, 5, 7, 8, 15, 16, 17, 18, 31, 32, 255, 256, 4095, 4096, 32767, 32768, 65534, 65535}
)

// LZBuilt makes data from literal runs and copies with chosen offset / length
// classes, so the match structure a compressor can find is known.
func LZBuilt(g *prng.Rng, n int) []byte {
	b := make([]byte, 0, n+6000)
	for len(b) < n {
		ll := LitClasses[g.N(len(LitClasses))]
		if len(b) == 0 && ll == 0 {
			ll = 8
		}
		b = append(b, g.Bytes(ll)...)
		if len(b) == 0 {
			continue
		}
		off := OffClasses[g.N(len(OffClasses))]
		if g.N(4) == 0 {
			off = 1 + g.N(65535)
		}
		if off > len(b) {
			off = len(b)
		}
		ml := MatchClasses[g.N(len(MatchClasses))]
		for k := 0; k < ml; k++ {
			b = append(b, b[len(b)-off])
		}
	}
	return b[:n]
}

// WindowEdge builds  [lead][A][filler][dense run][A][tail]  with the two copies of the
// random string A at distance exactly d.  The low-entropy "dense run" right in front of
// the second copy makes the compressors scan that neighbourhood position by
// position (their skip heuristics would otherwise step over it).
// lead > 0 shifts both copies (table aliasing in the fast compressor).
func WindowEdge(g *prng.Rng, d, alen, lead, tail int) []byte {
	if alen < 6 {
		alen = 6
	}
	if d < alen+80 {
		d = alen + 80
	}
	a := g.Bytes(alen)
	b := make([]byte, 0, lead+d+alen+tail)
	if lead > 0 {
		// dense lead so that the first copy is hashed as well
		run := make([]byte, lead)
		for i := range run {
			run[i] = byte(g.N(2))
		}
		b = append(b, run...)
	}
	b = append(b, a...)
	fillerLen := d - alen
	dense := 64 + g.N(1024)
	if dense > fillerLen-8 {
		dense = fillerLen - 8
	}
	if dense < 0 {
		dense = 0
	}
	b = append(b, g.Bytes(fillerLen-dense)...)
	runb := byte(g.Next())
	for i := 0; i < dense; i++ {
		b = append(b, runb)
	}
	// make sure the byte before the second copy differs from the byte before the first
	// one is not required; backward extension is legitimate.
	b = append(b, a...)
	b = append(b, g.Bytes(tail)...)
	return b
}

var EdgeDistances = []int{65533, 65534, 65535, 65536, 65537, 65538, 65536 + 17, 65536 + 255, 131071, 131072, 131073, 131072 + 300, 196608, 32767, 32768, 32769}

// LengthCodes: source material, then literal runs of exactly ll bytes followed
// by copies of exactly ml bytes, repeated; drives multi-byte length codes.
func LengthCodes(g *prng.Rng, ll, ml, reps int) []byte {
	mat := g.Bytes(ml + 64)
	b := append([]byte(nil), mat...)
	for r := 0; r < reps; r++ {
		b = append(b, g.Bytes(ll)...)
		o := g.N(len(mat) - ml + 1)
		b = append(b, mat[o:o+ml]...)
	}
	b = append(b, g.Bytes(16+g.N(8))...)
	return b
}

// TailRepeat: data that ends in a repeat of its own earlier content, with the
// copy running to the very last byte (stress for the end-of-block rules).
func TailRepeat(g *prng.Rng, n, replen int) []byte {
	if replen > n/2 {
		replen = n / 2
	}
	b := g.Bytes(n)
	copy(b[n-replen:], b[:replen])
	return b
}

// Class describes a generated source for the evidence.
type Class struct {
	Name string
	Size string
}

func sizeBucket(n int) string {
	switch {
	case n == 0:
		return "0"
	case n < 13:
		return "1-12"
	case n < 64:
		return "13-63"
	case n < 4096:
		return "64-4K"
	case n < 65536:
		return "4K-64K"
	case n == 65536:
		return "64K"
	case n < 1<<20:
		return "64K-1M"
	default:
		return ">=1M"
	}
}

// DrawSource draws a random source from all classes.  maxLen bounds its size.
func DrawSource(g *prng.Rng, repo string, maxLen int) ([]byte, Class) {
	var b []byte
	var name string
	switch g.N(12) {
	case 0:
		n := g.N(41)
		b, name = Small(g, n, g.N(6)), "tiny"
	case 1:
		n := SizeClass(g, maxLen)
		b, name = make([]byte, n), "constant"
		v := byte(g.Next())
		for i := range b {
			b[i] = v
		}
	case 2:
		p := Periods[g.N(len(Periods))]
		n := SizeClass(g, maxLen)
		if g.Bool() && p < 70000 && p*3 <= maxLen { // period divides the length
			n = p * (1 + g.N(maxI(1, minI(50, maxLen/p))))
		}
		b, name = Periodic(g, n, p), fmt.Sprintf("periodic")
	case 3:
		b, name = g.Bytes(SizeClass(g, maxLen)), "random"
	case 4:
		b, name = LowEntropy(g, SizeClass(g, maxLen), 2+g.N(3)), "lowentropy"
	case 5:
		b, name = Text(g, repo, SizeClass(g, maxLen)), "text"
	case 6:
		b, name = LZBuilt(g, SizeClass(g, minI(maxLen, 300000))), "lzbuilt"
	case 7, 8:
		d := EdgeDistances[g.N(len(EdgeDistances))]
		lead := g.Pick(0, 0, 1, 7, 64, 300, 65536-40, 65536+5)
		b, name = WindowEdge(g, d, g.Pick(6, 7, 8, 9, 12, 16, 40, 300), lead, g.Pick(0, 5, 12, 13, 14, 40, 1000)), "windowedge"
		if len(b) > maxLen {
			b = b[:maxLen]
		}
	case 9:
		ll := LitClasses[g.N(len(LitClasses))]
		ml := MatchClasses[g.N(len(MatchClasses))]
		reps := 1 + g.N(4)
		if ll > 4000 {
			reps = 1 + g.N(2) // the long-run classes would otherwise exceed every size bound
		}
		b, name = LengthCodes(g, ll, ml, reps), "lengthcodes"
		if len(b) > maxLen {
			b = b[:maxLen]
		}
	case 10:
		n := SizeClass(g, minI(maxLen, 200000))
		b, name = TailRepeat(g, n, g.Pick(4, 5, 6, 8, 12, 13, 14, 15, 16, 20, 100, 1000)), "tailrepeat"
	default:
		// run whose length sweeps residues modulo 8 near the end rules
		n := 13 + g.N(60)
		b, name = make([]byte, n), "shortrun"
		v := byte(g.Next())
		for i := range b {
			b[i] = v
		}
		if g.Bool() && n > 20 {
			copy(b[:g.N(8)], g.Bytes(8))
		}
	}
	return b, Class{Name: name, Size: sizeBucket(len(b))}
}

func minI(a, b int) int {
	if a < b {
		return a
	}
	return b
}

func maxI(a, b int) int {
	if a > b {
		return a
	}
	return b
}
