package gen

import (
	"encoding/binary"
	"fmt"

	"verif/internal/prng"
	"verif/internal/ref"
)

// Frame mutators.  They work on a valid frame and the field map produced by
// the independent parser.

type Mutant struct {
	Bytes []byte
	Kind  string // mutator (+ fix-ups)
	Field string // structural field hit ("" for payload / structural edits)
}

func clone(b []byte) []byte { return append([]byte(nil), b...) }

// fixHC recomputes the header checksum in place (library-view layout).
func fixHC(b []byte, f *ref.Frame) {
	if f.Legacy {
		return
	}
	start := f.Start + 4
	end := start + 2
	if b[start]&0x08 != 0 {
		end += 8
	}
	if end < len(b) {
		b[end] = ref.HeaderChecksum(b[start:end])
	}
}

// BitFlipsStructural returns one mutant per bit of every structural field.
func BitFlipsStructural(frame []byte, f *ref.Frame) []Mutant {
	var out []Mutant
	for _, fl := range f.Fields {
		if fl.Name == "bdata" {
			continue
		}
		for bit := 0; bit < fl.Len*8; bit++ {
			m := clone(frame)
			m[fl.Off+bit/8] ^= 1 << uint(bit%8)
			out = append(out, Mutant{m, "bitflip", fl.Name})
			// header fields: also with the header checksum repaired, so that the
			// corrupted descriptor is actually interpreted
			if fl.Name == "flg" || fl.Name == "bd" || fl.Name == "csize" {
				m2 := clone(m)
				fixHC(m2, f)
				out = append(out, Mutant{m2, "bitflip+fixhc", fl.Name})
			}
		}
	}
	return out
}

// rebuild re-serialises a frame from block records (modern frames only):
// blocks is a list of raw records (size word, data, optional checksum).
type rec struct{ raw []byte }

func records(frame []byte, f *ref.Frame) (header []byte, recs []rec, trailer []byte) {
	if len(f.Blocks) == 0 {
		return nil, nil, nil
	}
	header = frame[:f.Blocks[0].HdrOff]
	for i, b := range f.Blocks {
		end := b.DataOff + b.Size
		if b.HasChecksum {
			end += 4
		}
		_ = i
		recs = append(recs, rec{frame[b.HdrOff:end]})
	}
	last := f.Blocks[len(f.Blocks)-1]
	tend := last.DataOff + last.Size
	if last.HasChecksum {
		tend += 4
	}
	trailer = frame[tend:]
	return
}

func join(header []byte, recs []rec, trailer []byte) []byte {
	out := clone(header)
	for _, r := range recs {
		out = append(out, r.raw...)
	}
	return append(out, trailer...)
}

// fixContentSum recomputes the content checksum of a (modern) frame if the
// frame still parses up to the end mark.
func fixContentSum(b []byte) []byte {
	f, err := ref.ParseFrame(b, ref.ParseOpts{})
	if f == nil || f.Legacy || !f.ContentChecksum || f.EndMarkOff < 0 {
		return b
	}
	_ = err
	if f.EndMarkOff+8 <= len(b) {
		out := clone(b)
		binary.LittleEndian.PutUint32(out[f.EndMarkOff+4:], ref.XXH32(f.Content))
		return out
	}
	return b
}

// Structural returns block-level edits: delete, duplicate, swap, insert a
// foreign block, each plain and with the content checksum repaired.
func Structural(g *prng.Rng, frame []byte, f *ref.Frame, other []byte, fo *ref.Frame) []Mutant {
	var out []Mutant
	if f.Legacy || len(f.Blocks) == 0 {
		return nil
	}
	h, recs, tr := records(frame, f)
	add := func(kind string, r []rec) {
		m := join(h, r, tr)
		out = append(out, Mutant{m, kind, ""})
		if f.ContentChecksum {
			out = append(out, Mutant{fixContentSum(m), kind + "+fixcsum", ""})
		}
	}
	n := len(recs)
	for i := 0; i < n; i++ {
		// delete block i
		r := append(append([]rec{}, recs[:i]...), recs[i+1:]...)
		add("block-delete", r)
		// duplicate block i
		r = append(append(append([]rec{}, recs[:i+1]...), recs[i]), recs[i+1:]...)
		add("block-duplicate", r)
		// swap i and i+1
		if i+1 < n {
			r = append([]rec{}, recs...)
			r[i], r[i+1] = r[i+1], r[i]
			add("block-swap", r)
		}
	}
	// insert a special 4-byte word at every block boundary (before each block, before the end mark)
	for _, w := range []uint32{ref.MagicLegacy, ref.MagicFrame, ref.MagicSkip, 0x80000000, 0} {
		var word [4]byte
		binary.LittleEndian.PutUint32(word[:], w)
		for i := 0; i <= n; i++ {
			r := append(append(append([]rec{}, recs[:i]...), rec{word[:]}), recs[i:]...)
			m := join(h, r, tr)
			out = append(out, Mutant{m, fmt.Sprintf("word-insert-%08x", w), ""})
		}
	}
	if fo != nil && !fo.Legacy && len(fo.Blocks) > 0 {
		_, orecs, _ := records(other, fo)
		for k := 0; k < 3; k++ {
			i := g.N(n + 1)
			j := g.N(len(orecs))
			r := append(append(append([]rec{}, recs[:i]...), orecs[j]), recs[i:]...)
			add("block-insert-foreign", r)
		}
		// splice: header and first blocks of this frame, rest of the other
		for k := 0; k < 3; k++ {
			i := g.N(n + 1)
			j := g.N(len(orecs) + 1)
			m := clone(h)
			for _, x := range recs[:i] {
				m = append(m, x.raw...)
			}
			last := fo.Blocks[len(fo.Blocks)-1]
			tend := last.DataOff + last.Size
			if last.HasChecksum {
				tend += 4
			}
			for _, x := range orecs[j:] {
				m = append(m, x.raw...)
			}
			m = append(m, other[tend:]...)
			out = append(out, Mutant{m, "splice", ""})
		}
	}
	return out
}

// Random returns n seeded mutants: payload bit flips, multi-bit flips, byte
// substitutions, with optional fix-ups of block / content checksums.
func RandomMutants(g *prng.Rng, frame []byte, f *ref.Frame, n int) []Mutant {
	var out []Mutant
	var payload []ref.Field
	for _, fl := range f.Fields {
		if fl.Name == "bdata" {
			payload = append(payload, fl)
		}
	}
	for k := 0; k < n; k++ {
		m := clone(frame)
		kind := ""
		field := ""
		switch g.N(5) {
		case 0, 1: // payload bit flip
			if len(payload) == 0 {
				continue
			}
			fl := payload[g.N(len(payload))]
			m[fl.Off+g.N(fl.Len)] ^= 1 << uint(g.N(8))
			kind, field = "payload-bitflip", "bdata"
			if f.BlockChecksum && g.Bool() {
				// repair the block checksum (stored-bytes domain) so that only the content checksum can notice
				b := f.Blocks[fl.Block]
				binary.LittleEndian.PutUint32(m[b.DataOff+b.Size:], ref.XXH32(m[b.DataOff:b.DataOff+b.Size]))
				kind += "+fixbsum"
			}
		case 2: // 2-3 bit flips anywhere
			nb := 2 + g.N(2)
			for j := 0; j < nb; j++ {
				m[g.N(len(m))] ^= 1 << uint(g.N(8))
			}
			kind = fmt.Sprintf("multi-bitflip")
		case 3: // byte substitution
			p := g.N(len(m))
			m[p] = byte(g.Pick(0, 0xFF, 0x80, 1, int(m[p])+1))
			kind = "byte-substitute"
		default: // overwrite a structural field with a hostile value
			fl := f.Fields[g.N(len(f.Fields))]
			if fl.Name == "bdata" || fl.Len != 4 {
				continue
			}
			binary.LittleEndian.PutUint32(m[fl.Off:], uint32(g.Pick(0, 1, 0x7FFFFFFF, 0x80000000, 0xFFFFFFFF, 0x80000001, int(ref.MagicLegacy), int(ref.MagicFrame), int(ref.MagicSkip))))
			kind, field = "field-overwrite", fl.Name
		}
		out = append(out, Mutant{m, kind, field})
	}
	return out
}

// FarOffsets rewrites the offset of the first sequence of every compressed block so that the
// match reaches before the start of the block (just before it, a few hundred bytes, the maximum):
// invalid for a block that stands on its own or opens a frame, satisfiable only from data that
// precedes the block.  Block checksums are repaired, so that only the decoder can notice.
func FarOffsets(frame []byte, f *ref.Frame) []Mutant {
	var out []Mutant
	if f.Legacy {
		return nil
	}
	for _, b := range f.Blocks {
		if b.Stored || b.Size < 4 {
			continue
		}
		blk := frame[b.DataOff : b.DataOff+b.Size]
		ll := int(blk[0] >> 4)
		p := 1
		if ll == 15 {
			for p < len(blk) {
				v := int(blk[p])
				p++
				ll += v
				if v != 255 {
					break
				}
			}
		}
		p += ll
		if p+2 > len(blk) {
			continue // literals only
		}
		for _, off := range []int{ll + 1, ll + 7, 300, 1400, 40000, 65535} {
			if off > 65535 {
				continue
			}
			m := clone(frame)
			binary.LittleEndian.PutUint16(m[b.DataOff+p:], uint16(off))
			if b.HasChecksum {
				binary.LittleEndian.PutUint32(m[b.DataOff+b.Size:], ref.XXH32(m[b.DataOff:b.DataOff+b.Size]))
			}
			out = append(out, Mutant{m, fmt.Sprintf("first-offset-%d", off), "bdata"})
		}
	}
	return out
}
