package ref

import (
	"encoding/binary"
	"math/bits"
)

// XXH32 with seed 0, written from the xxHash specification
// (https://github.com/Cyan4973/xxHash/blob/dev/doc/xxhash_spec.md).

const (
	xp1 uint32 = 0x9E3779B1
	xp2 uint32 = 0x85EBCA77
	xp3 uint32 = 0xC2B2AE3D
	xp4 uint32 = 0x27D4EB2F
	xp5 uint32 = 0x165667B1
)

func xround(acc, lane uint32) uint32 {
	return bits.RotateLeft32(acc+lane*xp2, 13) * xp1
}

func xavalanche(h uint32) uint32 {
	h ^= h >> 15
	h *= xp2
	h ^= h >> 13
	h *= xp3
	h ^= h >> 16
	return h
}

func xtail(h uint32, b []byte) uint32 {
	for len(b) >= 4 {
		h = bits.RotateLeft32(h+binary.LittleEndian.Uint32(b)*xp3, 17) * xp4
		b = b[4:]
	}
	for _, c := range b {
		h = bits.RotateLeft32(h+uint32(c)*xp5, 11) * xp1
	}
	return h
}

// XXH32 is the one-shot hash (seed 0).
func XXH32(b []byte) uint32 {
	var x XXH32State
	x.Reset()
	x.Write(b)
	return x.Sum32()
}

// XXH32State is the streaming form.  The total length is kept in 64 bits and
// the "large length" decision does not depend on its truncation, as in the
// reference implementation (large_len flag).
type XXH32State struct {
	acc   [4]uint32
	total uint64
	mem   [16]byte
	nmem  int
	init  bool
}

func (x *XXH32State) Reset() {
	var s uint32 // seed 0
	x.acc = [4]uint32{s + xp1 + xp2, s + xp2, s, s - xp1}
	x.total = 0
	x.nmem = 0
	x.init = true
}

func (x *XXH32State) Write(b []byte) {
	if !x.init {
		x.Reset()
	}
	x.total += uint64(len(b))
	if x.nmem > 0 {
		n := copy(x.mem[x.nmem:], b)
		x.nmem += n
		b = b[n:]
		if x.nmem < 16 {
			return
		}
		x.stripe(x.mem[:])
		x.nmem = 0
	}
	for len(b) >= 16 {
		x.stripe(b[:16])
		b = b[16:]
	}
	x.nmem = copy(x.mem[:], b)
}

func (x *XXH32State) stripe(s []byte) {
	x.acc[0] = xround(x.acc[0], binary.LittleEndian.Uint32(s[0:]))
	x.acc[1] = xround(x.acc[1], binary.LittleEndian.Uint32(s[4:]))
	x.acc[2] = xround(x.acc[2], binary.LittleEndian.Uint32(s[8:]))
	x.acc[3] = xround(x.acc[3], binary.LittleEndian.Uint32(s[12:]))
}

func (x *XXH32State) Sum32() uint32 {
	if !x.init {
		x.Reset()
	}
	var h uint32
	if x.total >= 16 {
		h = bits.RotateLeft32(x.acc[0], 1) + bits.RotateLeft32(x.acc[1], 7) +
			bits.RotateLeft32(x.acc[2], 12) + bits.RotateLeft32(x.acc[3], 18)
	} else {
		h = x.acc[2] + xp5 // seed + prime5
	}
	h += uint32(x.total)
	h = xtail(h, x.mem[:x.nmem])
	return xavalanche(h)
}

// --- inversion: craft inputs with a chosen hash -------------------------------

func inv32(a uint32) uint32 { // multiplicative inverse modulo 2^32 (a odd)
	x := a
	for i := 0; i < 5; i++ {
		x *= 2 - a*x
	}
	return x
}

func unxorshift(h uint32, s uint) uint32 {
	r := h
	for i := uint(0); i < 32/s+1; i++ {
		r = h ^ (r >> s)
	}
	return r
}

func unavalanche(h uint32) uint32 {
	h = unxorshift(h, 16)
	h *= inv32(xp3)
	h = unxorshift(h, 13)
	h *= inv32(xp2)
	h = unxorshift(h, 15)
	return h
}

// XXH32Suffix returns 4 bytes s such that XXH32(prefix || s) == target.
// It requires (len(prefix)+4) % 16 to be 4, 8 or 12 so that s is consumed by
// the 4-byte tail step and not by a 16-byte stripe; ok is false otherwise.
func XXH32Suffix(prefix []byte, target uint32) (s [4]byte, ok bool) {
	n := len(prefix) + 4
	if m := n % 16; m != 4 && m != 8 && m != 12 {
		return s, false
	}
	// State just before the last 4-byte tail step.
	var x XXH32State
	x.Reset()
	x.Write(prefix)
	var h uint32
	if n >= 16 {
		h = bits.RotateLeft32(x.acc[0], 1) + bits.RotateLeft32(x.acc[1], 7) +
			bits.RotateLeft32(x.acc[2], 12) + bits.RotateLeft32(x.acc[3], 18)
	} else {
		h = xp5
	}
	h += uint32(n)
	h = xtail(h, x.mem[:x.nmem]) // nmem is a multiple of 4 here
	want := unavalanche(target)
	// want = rotl17(h + w*xp3) * xp4
	v := bits.RotateLeft32(want*inv32(xp4), -17)
	w := (v - h) * inv32(xp3)
	binary.LittleEndian.PutUint32(s[:], w)
	return s, true
}
