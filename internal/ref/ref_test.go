package ref

import "testing"

func TestSelfCheck(t *testing.T) {
	n, err := SelfCheck("/repo/testdata")
	if err != nil {
		t.Fatal(err)
	}
	t.Log("artefacts", n)
}
