package ref

import (
	"bytes"
	"fmt"
	"os"
	"path/filepath"
)

// SelfCheck validates the reference implementations against artefacts that do
// not come from the library under test: published XXH32 vectors and the golden
// .lz4 files (their plaintext siblings).  It returns the number of artefacts
// checked.
func SelfCheck(testdata string) (int, error) {
	n := 0
	vec := []struct {
		in   string
		want uint32
	}{
		{"", 0x02CC5D05},
		{"a", 0x550D7456},
		{"abc", 0x32D153FF},
		{"Nobody inspects the spammish repetition", 0xE2293B2F},
		{"The quick brown fox jumps over the lazy dog", 0xE85EA4DE},
	}
	for _, v := range vec {
		if got := XXH32([]byte(v.in)); got != v.want {
			return n, fmt.Errorf("ref.XXH32(%q) = %08x, published value %08x", v.in, got, v.want)
		}
		// streaming in 1-byte writes must agree
		var s XXH32State
		s.Reset()
		for i := range v.in {
			s.Write([]byte{v.in[i]})
		}
		if got := s.Sum32(); got != v.want {
			return n, fmt.Errorf("ref streaming XXH32(%q) = %08x, want %08x", v.in, got, v.want)
		}
		n++
	}
	// inverse
	for _, l := range []int{0, 4, 8, 16, 20, 24, 32, 100, 1000} {
		p := make([]byte, l)
		for i := range p {
			p[i] = byte(i * 7)
		}
		for _, tgt := range []uint32{0, 1, 0xdeadbeef} {
			s, ok := XXH32Suffix(p, tgt)
			if !ok {
				return n, fmt.Errorf("XXH32Suffix refused prefix length %d", l)
			}
			if got := XXH32(append(append([]byte{}, p...), s[:]...)); got != tgt {
				return n, fmt.Errorf("XXH32Suffix(len %d, %08x) gives %08x", l, tgt, got)
			}
			n++
		}
	}
	golden := []string{"Mark.Twain-Tom.Sawyer.txt", "e.txt", "gettysburg.txt", "pg1661.txt", "pi.txt", "random.data", "repeat.txt", "pg_control.tar", "bzImage_lz4_isolated"}
	files := 0
	for _, g := range golden {
		plain, err1 := os.ReadFile(filepath.Join(testdata, g))
		comp, err2 := os.ReadFile(filepath.Join(testdata, g+".lz4"))
		if err1 != nil || err2 != nil || len(plain) == 0 || len(comp) == 0 {
			continue
		}
		f, err := ParseFrame(comp, ParseOpts{EnforceBlockMax: true, KernelTrailer: true})
		if err != nil {
			return n, fmt.Errorf("reference frame decoder rejects golden file %s: %v", g, err)
		}
		if !bytes.Equal(f.Content, plain) {
			return n, fmt.Errorf("reference frame decoder output differs from %s", g)
		}
		if f.Consumed != len(comp) && !f.LegacyTrailer {
			return n, fmt.Errorf("golden file %s: %d of %d bytes consumed", g, f.Consumed, len(comp))
		}
		files++
		n++
	}
	if files < 3 {
		return n, fmt.Errorf("only %d golden files available under %s", files, testdata)
	}
	// The two reference-encoder files with the same content (one with linked blocks).
	a, err1 := os.ReadFile(filepath.Join(testdata, "Mark.Twain-Tom.Sawyer_linked.txt.lz4"))
	b, err2 := os.ReadFile(filepath.Join(testdata, "Mark.Twain-Tom.Sawyer_long.txt.lz4"))
	if err1 == nil && err2 == nil && len(a) > 0 && len(b) > 0 {
		fa, ea := ParseFrame(a, ParseOpts{EnforceBlockMax: true})
		fb, eb := ParseFrame(b, ParseOpts{EnforceBlockMax: true})
		if ea != nil || eb != nil {
			return n, fmt.Errorf("reference decoder rejects linked/long golden files: %v / %v", ea, eb)
		}
		if fa.BlockIndep || !bytes.Equal(fa.Content, fb.Content) {
			return n, fmt.Errorf("linked and long golden files decode differently (indep=%v)", fa.BlockIndep)
		}
		n++
	}
	return n, nil
}
