package ref

import (
	"encoding/binary"
	"fmt"
)

const (
	MagicFrame  uint32 = 0x184D2204
	MagicLegacy uint32 = 0x184C2102
	MagicSkip   uint32 = 0x184D2A50 // .. 0x184D2A5F
	LegacyBlock        = 8 << 20
)

// ErrKind classifies why the reference rejects a frame.
type ErrKind int

const (
	ErrNone ErrKind = iota
	ErrTruncated
	ErrBadMagic
	ErrHeaderChecksum
	ErrBlockSizeCode
	ErrBlockTooLarge
	ErrBlockData
	ErrBlockChecksum
	ErrContentChecksum
	ErrDecodedTooLarge
)

func (k ErrKind) String() string {
	return [...]string{"none", "truncated", "bad-magic", "header-checksum", "block-size-code", "block-too-large",
		"block-data", "block-checksum", "content-checksum", "decoded-too-large"}[k]
}

type FrameError struct {
	Kind ErrKind
	Off  int
	Msg  string
}

func (e *FrameError) Error() string { return fmt.Sprintf("ref: %s at %d: %s", e.Kind, e.Off, e.Msg) }

// Field is a structural field of a parsed frame (for mutators and reports).
type Field struct {
	Name  string
	Off   int
	Len   int
	Block int // block index or -1
}

type Block struct {
	HdrOff      int
	Word        uint32
	Stored      bool
	Size        int
	DataOff     int
	HasChecksum bool
	Checksum    uint32
	DecOff      int // offset of the decoded bytes in Content
	DecLen      int
	Stats       BlockStats
	Verdict     Verdict
}

type Frame struct {
	Skippable       int // skippable frames in front
	Start           int // offset of the frame magic
	Legacy          bool
	LegacyFrames    int // number of legacy magics seen (concatenated frames)
	LegacyTrailer   bool
	FLG, BD         byte
	Version         int
	BlockIndep      bool
	BlockChecksum   bool
	HasContentSize  bool
	ContentChecksum bool
	Reserved        bool // any reserved bit set (FLG bit 1, BD bits 7,3..0)
	DictID          bool
	BSCode          int
	BlockMax        int
	ContentSize     uint64
	HC              byte
	HeaderLen       int // bytes from the magic to the end of the header
	Blocks          []Block
	EndMarkOff      int
	ContentSum      uint32
	Fields          []Field
	Consumed        int
	Content         []byte
	Oversize        int // blocks whose decoded size exceeds the block maximum
	EmptyStored     int // zero-length stored blocks (word 0x80000000)
	LegacyRaw       int // legacy blocks with the high bit set
}

// ParseOpts are the explicit switches where acceptance is a matter of policy.
type ParseOpts struct {
	// SumDecoded makes block checksums cover the decoded bytes instead of the
	// stored bytes (NOT what the specification says; used only to recognise the
	// signature of that particular defect).
	SumDecoded bool
	// EnforceBlockMax rejects blocks whose decoded size exceeds the declared maximum.
	EnforceBlockMax bool
	// KernelTrailer accepts, in legacy frames, a final word equal to the total
	// decoded size (the Linux kernel variant) as end of stream.
	KernelTrailer bool
	// MaxContent bounds the decoded content (0 = 1 GiB).
	MaxContent int
}

// BlockMaxForCode maps the 3-bit block-size code to bytes (0 if undefined).
func BlockMaxForCode(code int) int {
	switch code {
	case 4:
		return 64 << 10
	case 5:
		return 256 << 10
	case 6:
		return 1 << 20
	case 7:
		return 4 << 20
	}
	return 0
}

// HeaderChecksum is byte 1 of XXH32 of the descriptor bytes.
func HeaderChecksum(desc []byte) byte { return byte(XXH32(desc) >> 8) }

func trunc(off int, what string) *FrameError {
	return &FrameError{ErrTruncated, off, "input ends inside " + what}
}

// ParseFrame parses and decodes the first frame of b (after any skippable
// frames).  The header layout is the one property C19 fixes: FLG, BD,
// optional 8-byte content size, HC; version, reserved and DictID bits are
// recorded but not judged here.
func ParseFrame(b []byte, o ParseOpts) (*Frame, error) {
	f := &Frame{EndMarkOff: -1}
	if o.MaxContent == 0 {
		o.MaxContent = 1 << 30
	}
	p := 0
	for {
		if len(b)-p < 4 {
			f.Consumed = len(b)
			return f, trunc(p, "magic")
		}
		m := binary.LittleEndian.Uint32(b[p:])
		if m>>4 == MagicSkip>>4 {
			if len(b)-p < 8 {
				f.Consumed = len(b)
				return f, trunc(p+4, "skippable length")
			}
			n := int(binary.LittleEndian.Uint32(b[p+4:]))
			f.Fields = append(f.Fields, Field{"skipmagic", p, 4, -1}, Field{"skiplen", p + 4, 4, -1})
			if len(b)-p-8 < n {
				f.Consumed = len(b)
				return f, trunc(p+8, "skippable data")
			}
			p += 8 + n
			f.Skippable++
			continue
		}
		f.Start = p
		f.Fields = append(f.Fields, Field{"magic", p, 4, -1})
		p += 4
		switch m {
		case MagicFrame:
		case MagicLegacy:
			f.Legacy = true
			f.LegacyFrames = 1
		default:
			f.Consumed = p
			return f, &FrameError{ErrBadMagic, p - 4, fmt.Sprintf("magic %08x", m)}
		}
		break
	}
	if f.Legacy {
		return parseLegacy(b, p, f, o)
	}
	if len(b)-p < 3 {
		f.Consumed = len(b)
		return f, trunc(p, "descriptor")
	}
	f.FLG, f.BD = b[p], b[p+1]
	f.Version = int(f.FLG >> 6)
	f.BlockIndep = f.FLG&0x20 != 0
	f.BlockChecksum = f.FLG&0x10 != 0
	f.HasContentSize = f.FLG&0x08 != 0
	f.ContentChecksum = f.FLG&0x04 != 0
	f.DictID = f.FLG&0x01 != 0
	f.Reserved = f.FLG&0x02 != 0 || f.BD&0x8F != 0
	f.BSCode = int(f.BD>>4) & 7
	f.Fields = append(f.Fields, Field{"flg", p, 1, -1}, Field{"bd", p + 1, 1, -1})
	dstart := p
	p += 2
	if f.HasContentSize {
		if len(b)-p < 9 {
			f.Consumed = len(b)
			return f, trunc(p, "content size")
		}
		f.ContentSize = binary.LittleEndian.Uint64(b[p:])
		f.Fields = append(f.Fields, Field{"csize", p, 8, -1})
		p += 8
	}
	f.HC = b[p]
	f.Fields = append(f.Fields, Field{"hc", p, 1, -1})
	if want := HeaderChecksum(b[dstart:p]); want != f.HC {
		f.Consumed = p + 1
		return f, &FrameError{ErrHeaderChecksum, p, fmt.Sprintf("got %02x want %02x", f.HC, want)}
	}
	p++
	f.HeaderLen = p - f.Start
	f.BlockMax = BlockMaxForCode(f.BSCode)
	if f.BlockMax == 0 {
		f.Consumed = p
		return f, &FrameError{ErrBlockSizeCode, dstart + 1, fmt.Sprintf("block size code %d", f.BSCode)}
	}
	var sum XXH32State
	sum.Reset()
	for {
		if len(b)-p < 4 {
			f.Consumed = len(b)
			return f, trunc(p, "block size")
		}
		w := binary.LittleEndian.Uint32(b[p:])
		if w == 0 {
			f.EndMarkOff = p
			f.Fields = append(f.Fields, Field{"endmark", p, 4, -1})
			p += 4
			break
		}
		bi := len(f.Blocks)
		blk := Block{HdrOff: p, Word: w, Stored: w&0x80000000 != 0, Size: int(w & 0x7FFFFFFF), DataOff: p + 4, DecOff: len(f.Content)}
		f.Fields = append(f.Fields, Field{"bsize", p, 4, bi})
		p += 4
		if blk.Size > f.BlockMax {
			f.Consumed = p
			return f, &FrameError{ErrBlockTooLarge, blk.HdrOff, fmt.Sprintf("block of %d bytes, maximum %d", blk.Size, f.BlockMax)}
		}
		if len(b)-p < blk.Size {
			f.Consumed = len(b)
			return f, trunc(p, "block data")
		}
		data := b[p : p+blk.Size]
		if blk.Size > 0 {
			f.Fields = append(f.Fields, Field{"bdata", p, blk.Size, bi})
		}
		p += blk.Size
		if f.BlockChecksum {
			if len(b)-p < 4 {
				f.Consumed = len(b)
				return f, trunc(p, "block checksum")
			}
			blk.HasChecksum = true
			blk.Checksum = binary.LittleEndian.Uint32(b[p:])
			f.Fields = append(f.Fields, Field{"bsum", p, 4, bi})
			p += 4
		}
		if blk.HasChecksum && !o.SumDecoded {
			if got := XXH32(data); got != blk.Checksum {
				f.Consumed = p
				return f, &FrameError{ErrBlockChecksum, p - 4, fmt.Sprintf("block %d: stored %08x computed %08x", bi, blk.Checksum, got)}
			}
		}
		var dec []byte
		if blk.Stored {
			dec = data
			if blk.Size == 0 {
				f.EmptyStored++
			}
		} else {
			var dict []byte
			if !f.BlockIndep {
				dict = f.Content
				if len(dict) > 65536 {
					dict = dict[len(dict)-65536:]
				}
			}
			limit := o.MaxContent - len(f.Content)
			if o.EnforceBlockMax {
				limit = f.BlockMax
			}
			d, v, st := DecodeBlock(data, dict, limit)
			blk.Verdict, blk.Stats = v, st
			if !v.Accept() {
				f.Consumed = p
				kind := ErrBlockData
				if v == OutputTooLarge {
					kind = ErrDecodedTooLarge
				}
				return f, &FrameError{kind, blk.DataOff, fmt.Sprintf("block %d: %s", bi, v)}
			}
			dec = d
		}
		if len(dec) > f.BlockMax {
			f.Oversize++
		}
		if blk.HasChecksum && o.SumDecoded {
			if got := XXH32(dec); got != blk.Checksum {
				f.Consumed = p
				return f, &FrameError{ErrBlockChecksum, p - 4, fmt.Sprintf("block %d (decoded domain): stored %08x computed %08x", bi, blk.Checksum, got)}
			}
		}
		blk.DecLen = len(dec)
		f.Content = append(f.Content, dec...)
		sum.Write(dec)
		f.Blocks = append(f.Blocks, blk)
	}
	if f.ContentChecksum {
		if len(b)-p < 4 {
			f.Consumed = len(b)
			return f, trunc(p, "content checksum")
		}
		f.ContentSum = binary.LittleEndian.Uint32(b[p:])
		f.Fields = append(f.Fields, Field{"csum", p, 4, -1})
		p += 4
		if got := sum.Sum32(); got != f.ContentSum {
			f.Consumed = p
			return f, &FrameError{ErrContentChecksum, p - 4, fmt.Sprintf("stored %08x computed %08x", f.ContentSum, got)}
		}
	}
	f.Consumed = p
	return f, nil
}

// parseLegacy: magic, then size-prefixed blocks until the input ends.
func parseLegacy(b []byte, p int, f *Frame, o ParseOpts) (*Frame, error) {
	f.BlockMax = LegacyBlock
	f.BlockIndep = true
	for {
		if len(b)-p == 0 {
			break // clean end of a legacy stream
		}
		if len(b)-p < 4 {
			f.Consumed = len(b)
			return f, trunc(p, "block size")
		}
		w := binary.LittleEndian.Uint32(b[p:])
		if w == MagicLegacy {
			f.Fields = append(f.Fields, Field{"magic", p, 4, -1})
			f.LegacyFrames++
			p += 4
			continue
		}
		if o.KernelTrailer && w == uint32(len(f.Content)) {
			f.LegacyTrailer = true
			f.Fields = append(f.Fields, Field{"trailer", p, 4, -1})
			p += 4
			break
		}
		bi := len(f.Blocks)
		blk := Block{HdrOff: p, Word: w, Stored: w&0x80000000 != 0, Size: int(w & 0x7FFFFFFF), DataOff: p + 4, DecOff: len(f.Content)}
		f.Fields = append(f.Fields, Field{"bsize", p, 4, bi})
		p += 4
		if blk.Size > LegacyBlock {
			f.Consumed = p
			return f, &FrameError{ErrBlockTooLarge, blk.HdrOff, fmt.Sprintf("legacy block of %d bytes", blk.Size)}
		}
		if len(b)-p < blk.Size {
			f.Consumed = len(b)
			return f, trunc(p, "block data")
		}
		data := b[p : p+blk.Size]
		if blk.Size > 0 {
			f.Fields = append(f.Fields, Field{"bdata", p, blk.Size, bi})
		}
		p += blk.Size
		var dec []byte
		if blk.Stored {
			f.LegacyRaw++
			dec = data
		} else {
			d, v, st := DecodeBlock(data, nil, LegacyBlock)
			blk.Verdict, blk.Stats = v, st
			if !v.Accept() {
				f.Consumed = p
				return f, &FrameError{ErrBlockData, blk.DataOff, fmt.Sprintf("legacy block %d: %s", bi, v)}
			}
			dec = d
		}
		blk.DecLen = len(dec)
		f.Content = append(f.Content, dec...)
		f.Blocks = append(f.Blocks, blk)
	}
	f.Consumed = p
	return f, nil
}

// WriterConfig is what a Writer was asked to produce (for conformance checks).
type WriterConfig struct {
	Legacy          bool
	BlockMax        int
	BlockChecksum   bool
	ContentChecksum bool
	ContentSize     uint64 // 0 = not configured
	NoFlush         bool   // stream was produced without Flush: non-last blocks must be full
}

// CheckConformance applies the strict-writer rules of the frame specification
// to a parsed frame: these are the things a conforming encoder must emit.
// It returns a list of (signature, description) pairs, empty when conforming.
func CheckConformance(f *Frame, cfg WriterConfig, input []byte, total int) [][2]string {
	var bad [][2]string
	add := func(sig, msg string) { bad = append(bad, [2]string{sig, msg}) }
	if f.Consumed != total {
		add("trailing-bytes", fmt.Sprintf("frame ends at %d but %d bytes were emitted", f.Consumed, total))
	}
	if f.Skippable != 0 {
		add("skippable-emitted", "writer emitted a skippable frame")
	}
	if f.Legacy != cfg.Legacy {
		add("wrong-magic", fmt.Sprintf("legacy=%v emitted for legacy=%v", f.Legacy, cfg.Legacy))
		return bad
	}
	if string(f.Content) != string(input) {
		add("content-mismatch", fmt.Sprintf("decoded content (%d bytes) differs from the input (%d bytes)", len(f.Content), len(input)))
	}
	if f.Legacy {
		if f.LegacyFrames != 1 {
			add("legacy-extra-magic", "more than one legacy magic")
		}
		if f.LegacyRaw > 0 {
			add("legacy-raw-block", fmt.Sprintf("%d legacy block(s) carry the raw/high bit (legacy blocks are always compressed)", f.LegacyRaw))
		}
		for i, blk := range f.Blocks {
			if cfg.NoFlush && i < len(f.Blocks)-1 && blk.DecLen != LegacyBlock {
				add("legacy-short-block", fmt.Sprintf("non-last legacy block %d holds %d bytes", i, blk.DecLen))
			}
			if blk.DecLen > LegacyBlock {
				add("legacy-long-block", fmt.Sprintf("legacy block %d holds %d bytes", i, blk.DecLen))
			}
		}
		return bad
	}
	if f.Version != 1 {
		add("version", fmt.Sprintf("version bits %02b", f.Version))
	}
	if f.Reserved {
		add("reserved-bits", fmt.Sprintf("FLG=%02x BD=%02x", f.FLG, f.BD))
	}
	if f.DictID {
		add("dictid", "DictID flag set")
	}
	if !f.BlockIndep {
		add("dependent", "writer emitted dependent blocks")
	}
	if f.BlockMax != cfg.BlockMax {
		add("block-size-code", fmt.Sprintf("declared maximum %d, configured %d", f.BlockMax, cfg.BlockMax))
	}
	if f.BlockChecksum != cfg.BlockChecksum {
		add("block-checksum-flag", fmt.Sprintf("flag %v, configured %v", f.BlockChecksum, cfg.BlockChecksum))
	}
	if f.ContentChecksum != cfg.ContentChecksum {
		add("content-checksum-flag", fmt.Sprintf("flag %v, configured %v", f.ContentChecksum, cfg.ContentChecksum))
	}
	if f.HasContentSize != (cfg.ContentSize != 0) {
		add("content-size-flag", fmt.Sprintf("flag %v, configured size %d", f.HasContentSize, cfg.ContentSize))
	} else if f.HasContentSize && f.ContentSize != cfg.ContentSize {
		add("content-size-value", fmt.Sprintf("field %d, configured %d", f.ContentSize, cfg.ContentSize))
	}
	for i, blk := range f.Blocks {
		if blk.DecLen > f.BlockMax {
			add("block-decodes-too-large", fmt.Sprintf("block %d decodes to %d > %d", i, blk.DecLen, f.BlockMax))
		}
		if !blk.Stored && blk.Verdict != Strict {
			add("block-not-strict", fmt.Sprintf("block %d is only %s", i, blk.Verdict))
		}
	}
	return bad
}

// ParsePrefix parses b as the beginning of a frame that has been flushed but
// not closed: header and complete blocks, ending exactly on a block boundary
// (no end mark yet).  It returns the decoded content so far.  A complete
// frame is accepted as well (closed == true).
func ParsePrefix(b []byte, o ParseOpts) (f *Frame, closed bool, err error) {
	f, err = ParseFrame(b, o)
	if err == nil {
		return f, !f.Legacy, nil
	}
	if fe, ok := err.(*FrameError); ok && fe.Kind == ErrTruncated && fe.Off == len(b) && fe.Msg == "input ends inside block size" {
		return f, false, nil
	}
	return f, false, err
}
