// Package ref holds independent reference implementations (oracles) written
// from the LZ4 block/frame format documents and the xxHash specification.
// Nothing here shares code with the library under test.
package ref

import "fmt"

// Verdict classifies a byte string as an LZ4 block.
type Verdict int

const (
	Strict           Verdict = iota // well formed and all end-of-block rules hold
	Lenient                         // fully parsed, ends after literals w/ zero match nibble or right after a match
	ZeroOffset                      // must reject
	OffsetBeforeDict                // must reject
	Truncated                       // must reject
	OutputTooLarge                  // must reject (for the given destination size)
	EmptyInput                      // not a block at all (zero bytes)
)

func (v Verdict) String() string {
	return [...]string{"strict", "lenient", "zero-offset", "offset-before-dict", "truncated", "output-too-large", "empty-input"}[v]
}

// Accept tells whether the format defines an output for the block.
func (v Verdict) Accept() bool { return v == Strict || v == Lenient }

// MustReject tells whether a decoder has to report an error.
func (v Verdict) MustReject() bool {
	return v == ZeroOffset || v == OffsetBeforeDict || v == Truncated || v == OutputTooLarge
}

// BlockStats describes the sequences of a parsed block.
type BlockStats struct {
	Sequences      int // number of sequences incl. the final one
	Matches        int
	MaxOffset      int
	Off65535       int // matches with offset exactly 65535
	Off65534       int
	OffGT32K       int
	OffLT4         int // overlapping short offsets
	LongLit        int // literal lengths >= 15 (extension bytes)
	LongLit2       int // literal lengths >= 15+255 (two or more extension bytes)
	LongMatch      int // match lengths >= 19
	LongMatch2     int // match lengths >= 19+255
	DictMatches    int // matches starting in the dictionary
	Straddle       int // matches starting in the dictionary and ending in the output
	Overlap        int // offset < match length
	LastLitLen     int
	LastMatchStart int // output position where the last match starts (-1: none)
	MatchAfter64K  int // matches whose output position is >= 65536
	OutLen         int
	EndsAfterMatch bool
}

// DecodeBlock decodes src byte by byte.  dict is the preceding window (may be
// nil); maxOut is the destination size.  The returned slice is valid only for
// accepting verdicts.
func DecodeBlock(src, dict []byte, maxOut int) ([]byte, Verdict, BlockStats) {
	var st BlockStats
	st.LastMatchStart = -1
	if len(src) == 0 {
		return nil, EmptyInput, st
	}
	out := make([]byte, 0, min(maxOut, 1<<16))
	i := 0
	for {
		if i >= len(src) {
			// Ended right after a complete match.
			st.EndsAfterMatch = true
			st.OutLen = len(out)
			return out, Lenient, st
		}
		t := int(src[i])
		i++
		st.Sequences++
		l := t >> 4
		if l == 15 {
			for {
				if i >= len(src) {
					return nil, Truncated, st
				}
				x := int(src[i])
				i++
				l += x
				if l > 1<<40 {
					return nil, Truncated, st
				}
				if x != 255 {
					break
				}
			}
		}
		if l >= 15 {
			st.LongLit++
			if l >= 15+255 {
				st.LongLit2++
			}
		}
		if l > len(src)-i {
			return nil, Truncated, st
		}
		if len(out)+l > maxOut {
			return nil, OutputTooLarge, st
		}
		out = append(out, src[i:i+l]...)
		i += l
		if i == len(src) {
			if t&15 != 0 {
				return nil, Truncated, st
			}
			st.LastLitLen = l
			st.OutLen = len(out)
			v := Lenient
			if strictEnd(&st, len(out)) {
				v = Strict
			}
			return out, v, st
		}
		if i+2 > len(src) {
			return nil, Truncated, st
		}
		off := int(src[i]) | int(src[i+1])<<8
		i += 2
		if off == 0 {
			return nil, ZeroOffset, st
		}
		m := t & 15
		if m == 15 {
			for {
				if i >= len(src) {
					return nil, Truncated, st
				}
				x := int(src[i])
				i++
				m += x
				if m > 1<<40 {
					return nil, Truncated, st
				}
				if x != 255 {
					break
				}
			}
		}
		m += 4
		if off > len(out)+len(dict) {
			return nil, OffsetBeforeDict, st
		}
		if len(out)+m > maxOut {
			return nil, OutputTooLarge, st
		}
		st.Matches++
		st.LastMatchStart = len(out)
		if off > st.MaxOffset {
			st.MaxOffset = off
		}
		switch {
		case off == 65535:
			st.Off65535++
		case off == 65534:
			st.Off65534++
		}
		if off > 32768 {
			st.OffGT32K++
		}
		if off < 4 {
			st.OffLT4++
		}
		if off < m {
			st.Overlap++
		}
		if m >= 19 {
			st.LongMatch++
			if m >= 19+255 {
				st.LongMatch2++
			}
		}
		if len(out) >= 65536 {
			st.MatchAfter64K++
		}
		if off > len(out) {
			st.DictMatches++
			if off-len(out) < m {
				st.Straddle++
			}
		}
		for k := 0; k < m; k++ {
			p := len(out) - off
			if p < 0 {
				out = append(out, dict[len(dict)+p])
			} else {
				out = append(out, out[p])
			}
		}
	}
}

// strictEnd applies the end-of-block rules of the block format: the last
// sequence is literals only (guaranteed by the caller), the last 5 bytes are
// literals and the last match starts at least 12 bytes before the end.
// Blocks without any match are always fine.
func strictEnd(st *BlockStats, outLen int) bool {
	if st.Matches == 0 {
		return true
	}
	if st.LastLitLen < 5 {
		return false
	}
	if outLen-st.LastMatchStart < 12 {
		return false
	}
	return true
}

// ValidateBlockStrict checks a compressor's output against the strictest
// reading of the block format and against the source it must decode to.
func ValidateBlockStrict(block, src []byte) (BlockStats, error) {
	out, v, st := DecodeBlock(block, nil, len(src))
	if !v.Accept() {
		return st, fmt.Errorf("block rejected by reference decoder: %s", v)
	}
	if len(out) != len(src) {
		return st, fmt.Errorf("block decodes to %d bytes, source has %d", len(out), len(src))
	}
	for i := range out {
		if out[i] != src[i] {
			return st, fmt.Errorf("decoded byte %d differs from the source", i)
		}
	}
	if st.EndsAfterMatch {
		return st, fmt.Errorf("final sequence is not literals-only")
	}
	if st.Matches > 0 {
		if st.LastLitLen < 5 {
			return st, fmt.Errorf("last %d bytes are literals, need 5", st.LastLitLen)
		}
		if d := len(out) - st.LastMatchStart; d < 12 {
			return st, fmt.Errorf("last match starts %d bytes before the end, need 12", d)
		}
		if len(src) < 13 {
			return st, fmt.Errorf("source shorter than 13 bytes encoded with a match")
		}
	}
	if v != Strict {
		return st, fmt.Errorf("block is only leniently valid")
	}
	return st, nil
}
