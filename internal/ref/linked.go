package ref

import (
	"encoding/binary"

	"verif/internal/prng"
)

// Independent encoder of frames with *dependent* blocks (the library's Writer
// never emits those).  Content and sequences are generated together, so the
// expected decoding is known by construction.

type LinkedOpts struct {
	BSCode          int // 4..7
	Total           int // approximate content size
	BlockChecksum   bool
	ContentChecksum bool
	ContentSize     bool
	SumDecoded      bool // block checksum over decoded bytes (non-standard)
	SmallBlocks     bool // favour tiny blocks (5..300 bytes)
	RawPercent      int  // share of stored blocks
}

type LinkedStats struct {
	Blocks        int
	Raw           int
	Matches       int
	CrossOne      int // match source starts in the previous block
	CrossMany     int // match source starts two or more blocks back
	Off65535      int
	StraddleStart int // match source begins before the current block and ends inside it
	MaxBlock      int
	MinBlock      int
}

func putLen(b []byte, x int) []byte {
	for x >= 255 {
		b = append(b, 255)
		x -= 255
	}
	return append(b, byte(x))
}

// EncodeSeq appends one sequence (mlen == 0: final literals only).
func EncodeSeq(b []byte, lit []byte, off, mlen int) []byte {
	ll := len(lit)
	tok := 0
	if ll >= 15 {
		tok = 0xF0
	} else {
		tok = ll << 4
	}
	if mlen > 0 {
		if mlen-4 >= 15 {
			tok |= 15
		} else {
			tok |= mlen - 4
		}
	}
	b = append(b, byte(tok))
	if ll >= 15 {
		b = putLen(b, ll-15)
	}
	b = append(b, lit...)
	if mlen > 0 {
		b = append(b, byte(off), byte(off>>8))
		if mlen-4 >= 15 {
			b = putLen(b, mlen-4-15)
		}
	}
	return b
}

func EncodeLinkedFrame(g *prng.Rng, o LinkedOpts) (content, frame []byte, st LinkedStats) {
	maxBlock := BlockMaxForCode(o.BSCode)
	st.MinBlock = 1 << 30
	frame = binary.LittleEndian.AppendUint32(nil, MagicFrame)
	flg := byte(0x40) // version 01, block independence bit clear
	if o.BlockChecksum {
		flg |= 0x10
	}
	if o.ContentChecksum {
		flg |= 0x04
	}
	if o.ContentSize {
		flg |= 0x08
	}
	frame = append(frame, flg, byte(o.BSCode<<4))
	sizeAt := -1
	if o.ContentSize {
		sizeAt = len(frame)
		frame = append(frame, 0, 0, 0, 0, 0, 0, 0, 0)
	}
	hcAt := len(frame)
	frame = append(frame, 0)
	var starts []int // block start offsets in content
	for len(content) < o.Total {
		var tgt int
		if o.SmallBlocks {
			tgt = g.Pick(5, 6, 13, 14, 20, 40, 100, 300)
		} else {
			tgt = g.Pick(5, 13, 40, 300, 5000, 20000, 65535, 65536, 65537, 70000, 131071, 200000, maxBlock)
		}
		if tgt > maxBlock {
			tgt = maxBlock
		}
		start := len(content)
		starts = append(starts, start)
		var blk []byte
		raw := g.N(100) < o.RawPercent
		if raw {
			content = append(content, g.Bytes(tgt)...)
			blk = content[start:]
			st.Raw++
		} else {
			for len(content)-start < tgt-16 {
				ll := g.Pick(0, 0, 1, 3, 14, 15, 16, 40, 300)
				if len(content) == 0 && ll == 0 {
					ll = 1
				}
				room := tgt - 8 - (len(content) - start) - ll
				if room < 4 {
					break
				}
				lit := g.Bytes(ll)
				content = append(content, lit...)
				maxOff := len(content)
				if maxOff > 65535 {
					maxOff = 65535
				}
				var off int
				switch g.N(8) {
				case 0:
					off = maxOff
				case 1:
					off = g.Pick(1, 2, 3, 4, 8, 16)
				case 2: // source straddles the start of the current block
					off = len(content) - start + g.N(100)
				case 3:
					off = 65535
				case 4: // reach into an earlier block
					if len(starts) >= 2 {
						k := g.N(len(starts) - 1)
						off = len(content) - starts[k] - g.N(8)
					} else {
						off = 1 + g.N(maxOff)
					}
				default:
					off = 1 + g.N(maxOff)
				}
				if off > maxOff {
					off = maxOff
				}
				if off < 1 {
					off = 1
				}
				ml := g.Pick(4, 5, 8, 18, 19, 20, 100, 1000, 70000)
				if ml > room {
					ml = room
				}
				srcPos := len(content) - off
				if srcPos < start {
					// which block does the source start in?
					bi := len(starts) - 1
					for bi > 0 && starts[bi] > srcPos {
						bi--
					}
					if bi == len(starts)-2 {
						st.CrossOne++
					} else if bi < len(starts)-2 {
						st.CrossMany++
					}
					if srcPos+ml > start {
						st.StraddleStart++
					}
				}
				if off == 65535 {
					st.Off65535++
				}
				for k := 0; k < ml; k++ {
					content = append(content, content[len(content)-off])
				}
				blk = EncodeSeq(blk, lit, off, ml)
				st.Matches++
			}
			fl := tgt - (len(content) - start)
			if fl < 8 {
				fl = 8
			}
			if len(content)-start+fl > maxBlock {
				fl = maxBlock - (len(content) - start)
			}
			lit := g.Bytes(fl)
			content = append(content, lit...)
			blk = EncodeSeq(blk, lit, 0, 0)
		}
		dec := content[start:]
		if len(dec) > maxBlock {
			panic("ref.EncodeLinkedFrame: block too big")
		}
		if len(dec) > st.MaxBlock {
			st.MaxBlock = len(dec)
		}
		if len(dec) < st.MinBlock {
			st.MinBlock = len(dec)
		}
		hdr := uint32(len(blk))
		if raw {
			hdr |= 0x80000000
		}
		frame = binary.LittleEndian.AppendUint32(frame, hdr)
		frame = append(frame, blk...)
		if o.BlockChecksum {
			if o.SumDecoded {
				frame = binary.LittleEndian.AppendUint32(frame, XXH32(dec))
			} else {
				frame = binary.LittleEndian.AppendUint32(frame, XXH32(blk))
			}
		}
		st.Blocks++
	}
	frame = append(frame, 0, 0, 0, 0)
	if o.ContentChecksum {
		frame = binary.LittleEndian.AppendUint32(frame, XXH32(content))
	}
	if sizeAt >= 0 {
		binary.LittleEndian.PutUint64(frame[sizeAt:], uint64(len(content)))
	}
	frame[hcAt] = HeaderChecksum(frame[4:hcAt])
	return
}
